"""C01 - Array / Stack / Queue: structural clauses decided statically on every instantiated member.

 R-ALIAS     no member reads a `const T&` argument (which may refer to an element of the same array) after the storage may
             have been released or moved, except through the alias-index idiom; summaries propagated to forwarding callers
 R-SELFARG   a member taking `const Array&` does not re-read the argument's live length after changing its own size
 R-RC a-f    reference-count protocol of the Array handle (copy / assign / destroy / alloc / relocation)
 C01.lifetime  every store that changes the element count is matched on all paths by construction / destruction of exactly the
             affected side (destroy before a shrinking store and before the gap is closed, construct before a growing store,
             resize(): construct iff new > old, destroy iff new < old; free(): destroy all before releasing the block)
 C01.thin    Stack and Queue never touch the storage pointer or the header directly (only Array members)
Sequence-model equality over operation histories and index arithmetic inside memmove lengths are not decided."""
import os
import ir, q, rc, alias, cfg as cfgm
from ir import strip, strip_lv, const_val, T, pe, walk_expr, fn_exprs, AnalysisBroken
from core import fwhere

DRIVERS = ['inst_containers.cpp']


def elem_type(f):
    """canonical element type string of the Array<T> specialisation f belongs to"""
    cls = f.get('cls', '')
    for pre in ('asl::Array<', 'asl::Stack<', 'asl::Queue<'):
        if cls.startswith(pre) and cls.endswith('>'):
            return cls[len(pre):-1].strip()
    return None


def array_risk(f, p):
    t = T(f, p['t'])
    if t.get('ptr') and not t.get('ref'):
        # pointer to elements (`append(const T* p, int n)`): p may point into this array's own storage
        et = elem_type(f)
        s = T(f, t.get('to')).get('s', '')
        s = s[6:] if s.startswith('const ') else s
        return et is not None and s == et
    if not t.get('ref'):
        return False
    to = T(f, t.get('to'))
    et = elem_type(f)
    if et is None:
        return False
    s = to.get('s', '')
    if s.startswith('const '):
        s = s[6:]
    if s == et:
        return True
    # same-class argument of the handle assignment: the argument object may live inside the released storage
    if to.get('recp') == 'asl::Array' and to.get('rec') == f.get('cls') and f.get('n') == 'operator=':
        return True
    return False


def run(ctx):
    units = [os.path.join(ir.VERIF, 'drivers', d) for d in DRIVERS + (['inst_containers_thorough.cpp'] if ctx.tier == 'thorough' else [])]
    lib = ir.library_units() if ctx.tier == 'thorough' else []
    prog = ir.load_units(units + lib, force_inst=units)
    ctx.use_program(prog)
    ctx.info['non_instantiable'] = prog.non_instantiable[:20]

    # ---------------------------------------------------------------- R-ALIAS
    ac = alias.AliasClass(prog, ctx, 'Array', 'asl::Array', ('_a',), (), array_risk)
    need = {'asl::Array::reserve', 'asl::Array::resize', 'asl::Array::insert', 'asl::Array::remove', 'asl::Array::free', 'asl::Array::operator='}
    missing = need - ac.inv
    if missing:
        raise AnalysisBroken('invalidator set of Array lost members %s (extractor blind?)' % sorted(missing))
    ctx.info['Inv(Array)'] = sorted(ac.inv)
    unsafe, n = ac.run('R-ALIAS')
    ctx.floor('R-ALIAS members x at-risk params', n, 60)

    # Stack / Queue derive from Array: their own members (push, put, pop ...) receive references that may designate elements
    # of the stack itself (`s.push(s.top())`); same typestate analysis, with Array's invalidating members and summaries
    for sub in ('Stack', 'Queue'):
        if not any(f_.get('clsp') == 'asl::' + sub and f_.get('body') for f_ in prog.functions):
            continue
        acs = alias.AliasClass(prog, ctx, sub, 'asl::' + sub, ('_a',), (), array_risk, extra_invalidators=ac.inv)
        acs.run('R-ALIAS', extern_summaries=unsafe)

    # ---------------------------------------------------------------- R-SELFARG
    n = check_selfarg(ctx, prog, ac)
    ctx.floor('R-SELFARG members', n, 12)

    # ---------------------------------------------------------------- R-RC
    k = rc.check_family(ctx, prog, 'Array')
    ctx.floor('R-RC Array special members', k, 20)
    rc.check_primitive(ctx, prog)
    nrel = rc.check_relocation(ctx, prog, 'Array')
    ctx.floor('R-RC.f Array relocators', nrel, 2)

    # ---------------------------------------------------------------- lifetime
    n = check_lifetime(ctx, prog)
    ctx.floor('C01.lifetime members', n, 20)

    # ---------------------------------------------------------------- references to elements held across element writes
    n = check_elemref(ctx, prog)
    ctx.floor('R-ELEMREF functions', n, 8)

    # ---------------------------------------------------------------- value-returning members do not hand out their own storage
    n = check_fresh(ctx, prog)
    ctx.floor('R-SHARE value-returning members', n, 10)
    check_rebind(ctx, prog)

    # ---------------------------------------------------------------- tail moves cover exactly the old tail
    n = check_tailmove(ctx, prog)
    ctx.floor('R-TAILMOVE', n, 2)

    # ---------------------------------------------------------------- dup() detaches whenever the storage is shared
    n = check_dup(ctx, prog)
    ctx.floor('R-DUP', n, 1)

    # ---------------------------------------------------------------- a (re)allocated block records its capacity
    n = check_capacity(ctx, prog)
    ctx.floor('R-CAP allocating members', n, 10)

    # ---------------------------------------------------------------- an element that fits is stored in place
    n = check_fits(ctx, prog)
    ctx.floor('C01.fits', n, 1)

    # ---------------------------------------------------------------- thin wrappers
    n = 0
    for cls in ('asl::Stack', 'asl::Queue'):
        for f in prog.functions:
            if f.get('clsp') != cls or f.get('implicit'):
                continue
            n += 1
            ctx.analysed(f)
            bad = [e for e in fn_exprs(f) if (e.get('k') == 'mem' and e.get('f') in ('_a', 'n', 's', 'rc') and (e.get('fq') or '').startswith('asl::Array')) or
                   (e.get('k') == 'call' and e.get('fn') in ('realloc', 'free', 'malloc', 'memmove', 'memcpy'))]
            ctx.check(not bad, 'C01.thin', f['pq'], f['n'] + f['sig'], fwhere(f), 'only calls Array members',
                      '%s touches Array storage or header directly: %s' % (f['pq'], [pe(b) for b in bad[:3]]))
    ctx.floor('C01.thin members', n, 15)
    import eqrange
    ctx.floor('R-EQRANGE', eqrange.check(ctx, prog, 'R-EQRANGE', ('asl::Array::operator==',)), 1)
    import retself
    n = retself.check(ctx, prog, 'R-RETSELF', ('asl::Array', 'asl::Stack', 'asl::Queue'))
    ctx.floor('R-RETSELF members', n, 5)
    return __doc__.split('\n\n', 1)[1]


# ------------------------------------------------------------------------------------------------ R-SELFARG

def size_changers(prog):
    """Array members that (transitively, through calls on this) store a new value to Data::n."""
    direct = set()
    calls = {}
    for f in prog.functions:
        if f.get('clsp') != 'asl::Array' or f.get('implicit'):
            continue
        for e in fn_exprs(f):
            if e.get('k') == 'bin' and e.get('op') in ('=', '-=', '+=') and strip_lv(e['x']).get('k') == 'mem' and strip_lv(e['x']).get('fq') == 'asl::Array::Data::n':
                direct.add(f['pq'])
            if e.get('k') == 'un' and e.get('op') in ('pre++', 'pre--', 'post++', 'post--') and strip_lv(e['e']).get('fq') == 'asl::Array::Data::n':
                direct.add(f['pq'])
            if e.get('k') == 'call' and e.get('clsp') == 'asl::Array' and alias.is_this_obj(e):
                calls.setdefault(f['pq'], set()).add(e.get('pq'))
    direct.discard('asl::Array::reserve')       # carries the count across relocation unchanged
    res = set(direct)
    changed = True
    while changed:
        changed = False
        for pq, cs in calls.items():
            if pq not in res and cs & res:
                res.add(pq)
                changed = True
    return res


def reads_length_of_param(prog, call, k, depth=0):
    """does the member called by `call` read the live length of its k-th parameter (directly or by handing it on, two levels)?"""
    for g in prog.fn(call.get('fn'), call.get('sig')):
        if not g.get('body') or k >= len(g['params']):
            continue
        gid = g['params'][k]['id']
        for w in fn_exprs(g):
            if w.get('k') != 'call':
                continue
            name = (w.get('pq') or '').split('::')[-1]
            if name in ('length', 'd', 'cap') and w.get('obj') is not None:
                o = strip(w['obj'])
                if o.get('k') == 'var' and o.get('id') == gid:
                    return True
            if depth < 2 and w.get('clsp') == 'asl::Array':
                for k2, a2 in enumerate(w.get('a') or []):
                    a0 = strip(a2)
                    if a0.get('k') == 'var' and a0.get('id') == gid and reads_length_of_param(prog, w, k2, depth + 1):
                        return True
    return False


def check_selfarg(ctx, prog, ac):
    changers = size_changers(prog)
    if 'asl::Array::resize' not in changers or 'asl::Array::insert' not in changers:
        raise AnalysisBroken('size-changing member set lost resize/insert: %s' % sorted(changers))
    n = 0
    for f in ac.members:
        if f.get('kind') in ('ctor', 'dtor'):
            continue
        for j, p in enumerate(f['params']):
            t = T(f, p['t'])
            to = T(f, t.get('to')) if t.get('ref') else {}
            if not (t.get('ref') and to.get('rec') == f.get('cls')):
                continue
            n += 1
            ctx.analysed(f)
            pid = p['id']
            cfg = ac.cfg(f)
            hits = []

            def step(nd, st):
                if nd.kind != 'ev' or nd.e is None:
                    return st
                e = nd.e
                if e.get('k') == 'call':
                    # ... or the argument handed on whole to a member that reads its length (`clear(); append(b);`)
                    if st == 'resized' and e.get('clsp') == 'asl::Array' and alias.is_this_obj(e):
                        for k_, a_ in enumerate(e.get('a') or []):
                            a0 = strip(a_)
                            if a0.get('k') == 'var' and a0.get('id') == pid and reads_length_of_param(prog, e, k_):
                                hits.append(e.get('l', 0))
                    if e.get('clsp') == 'asl::Array' and e.get('pq') in changers and alias.is_this_obj(e):
                        return 'resized'
                    name = (e.get('pq') or '').split('::')[-1]
                    if st == 'resized' and name in ('length', 'd', 'cap') and e.get('obj') is not None:
                        o = strip(e['obj'])
                        if o.get('k') == 'var' and o.get('id') == pid:
                            hits.append(e.get('l', 0))
                return st

            def edge(nd, lab, st):
                if nd.kind == 'br' and lab in (True, False):
                    idg = rc.identity_test(f, strip(nd.e))
                    if idg is not None and lab != idg:
                        return 'distinct' if st != 'resized' else st
                return st
            reached, _ = cfgm.dataflow(cfg, 'start', step, edge)
            ctx.evaluations += sum(len(v) for v in reached.values())
            role = '%s:param %s' % (f['n'], p['n'])
            if hits:
                ctx.violation('R-SELFARG', f['pq'], role, fwhere(f, hits[0]),
                              'the live length of `%s` is re-read after this array changed its own size; `%s` may be the same array (instantiation %s%s)' % (p['n'], p['n'], f['q'], f['sig']))
            else:
                ctx.ok('R-SELFARG', f['pq'], role, fwhere(f), 'length of the argument is taken before any size change of the receiver', nontrivial=f['pq'] in changers)
    return n


# ------------------------------------------------------------------------------------------------ R-SHARE / R-TAILMOVE

def check_fresh(ctx, prog, classes=('asl::Array',), rule_label='array'):
    """A const member that returns an Array *by value* promises a new array (concat, slice, reversed, map, clone ...). Returning
    `*this` or a by-reference parameter copy-constructs a handle, i.e. shares the storage: later changes through either show in both."""
    n = 0
    for f in prog.functions:
        if f.get('clsp') not in classes or not f.get('body') or f.get('implicit') or not f.get('const') or f.get('kind') != 'method':
            continue
        rt = T(f, f.get('ret'))
        if rt.get('ref') or rt.get('recp') not in classes or rt.get('rec') != f.get('cls'):
            continue
        n += 1
        ctx.analysed(f)
        bad = []
        for s_ in ir.walk_stmts(f['body']):
            if s_.get('k') == 'return' and s_.get('e') is not None:
                e = strip(s_['e'])
                while e.get('k') == 'construct' and e.get('copy') and e.get('a'):
                    e = strip(e['a'][0])
                if e.get('k') == 'un' and e.get('op') == '*' and strip(e['e']).get('k') == 'this':
                    bad.append((s_['l'], '*this'))
                elif e.get('k') == 'var' and e.get('vk') == 'param' and T(f, e.get('dt') or e.get('t')).get('ref'):
                    bad.append((s_['l'], e['n']))
        role = f['n'] + ':returns a new array, not a handle to existing storage'
        if bad:
            ctx.violation('R-SHARE', f['pq'], role, fwhere(f, bad[0][0]), '%s returns `%s` by value on some path: the result is another handle to the same storage, so a later change through the result or the source shows in both (and growth leaves the other dangling) (%s%s)' % (f['pq'], bad[0][1], f['q'], f['sig']))
        else:
            ctx.ok('R-SHARE', f['pq'], role, fwhere(f), 'every return yields a freshly built array')
    return n


def linear(f, e, env):
    """e as a linear form {var id or name: coeff, 1: const} over int variables; None if not linear."""
    e = strip(e)
    v = const_val(e)
    if v is not None:
        return {1: v}
    k = e.get('k')
    if k == 'var':
        return {e['id']: 1}
    if k == 'bin' and e.get('op') in ('+', '-'):
        a, b = linear(f, e['x'], env), linear(f, e['y'], env)
        if a is None or b is None:
            return None
        out = dict(a)
        for kk, vv in b.items():
            out[kk] = out.get(kk, 0) + (vv if e['op'] == '+' else -vv)
        return out
    if k == 'bin' and e.get('op') == '*':
        a, b = linear(f, e['x'], env), linear(f, e['y'], env)
        if a is None or b is None:
            return None
        if set(a) <= {1}:
            return dict((kk, vv * a.get(1, 0)) for kk, vv in b.items())
        if set(b) <= {1}:
            return dict((kk, vv * b.get(1, 0)) for kk, vv in a.items())
        return None
    if k == 'cast' and e.get('ck') in ('IntegralCast', 'NoOp', 'LValueToRValue'):
        return linear(f, e['e'], env)
    if k == 'un' and e.get('op') == '-':
        a = linear(f, e['e'], env)
        return None if a is None else dict((kk, -vv) for kk, vv in a.items())
    if k == 'un' and e.get('op') == '+':
        return linear(f, e['e'], env)
    if env == 'atoms' and k in ('cond', 'call', 'mem', 'idx', 'un'):
        # an opaque integer quantity: equal texts denote equal values within one straight-line region
        return {('atom', pe(e)): 1}
    return None


def ptr_offset(f, e):
    """offset (in elements) of a pointer expression based on _a: _a + X, (char*)_a + X*sizeof(T), &_a[X]"""
    e = strip(e)
    if e.get('k') == 'mem' and e.get('f') == '_a':
        return {1: 0}, 1
    if e.get('k') == 'bin' and e.get('op') == '+':
        base, scale = ptr_offset(f, e['x'])
        if base is not None:
            off = linear(f, e['y'], None)
            if off is None:
                return None, None
            # pointer arithmetic on char* after a cast: offset is in bytes
            tx = T(f, strip_lv(e['x']).get('t'))
            to = T(f, tx.get('to'))
            out = dict(base)
            for kk, vv in off.items():
                out[kk] = out.get(kk, 0) + vv
            return out, (to.get('sz') or 1)
    return None, None


def check_dup(ctx, prog, cls='asl::Array'):
    """R-DUP: dup() (the detach primitive behind clone(), concat, Map/Dic dup) may keep the current storage only when this
    handle is its sole owner.  Every return that is reached before a new block was built is evaluated with the reference
    count and the length bound to small values: it must not be admitted for a count above 1."""
    import bounded
    n = 0
    for f in prog.functions:
        if f.get('clsp') != cls or f.get('n') != 'dup' or not f.get('body') or f.get('implicit'):
            continue
        n += 1
        ctx.analysed(f)
        G = q.Guarded(f)
        order = dict((id(x), i) for i, x in enumerate(G.order))
        builds = [e for e in fn_exprs(f) if (e.get('k') == 'construct' and (e.get('cls') or '').startswith(cls.split('<')[0]) and not e.get('copy')) or
                  (e.get('k') == 'call' and e.get('fn') in ('malloc', 'realloc'))]
        # a member of the class that returns a fresh array by value (`copied()`, `clone()`) builds the new block as well
        for e in fn_exprs(f):
            if e.get('k') == 'call' and e.get('clsp') == cls and (e.get('obj') is None or strip_lv(e['obj']).get('k') in ('this', None) or
                                                                  (strip_lv(e['obj']).get('k') == 'un' and strip_lv(strip_lv(e['obj'])['e']).get('k') == 'this')):
                rt = T(f, e.get('t'))
                if rt.get('recp') == cls and not rt.get('ref') and (e.get('pq') or '').split('::')[-1] not in ('dup', 'operator='):
                    builds.append(e)
        first_build = min([order.get(id(e), 10 ** 9) for e in builds] or [10 ** 9])
        role = 'dup:keeps the storage only for a sole owner'
        bad = None
        und = None
        for s_ in ir.walk_stmts(f['body']):
            if s_.get('k') != 'return':
                continue
            pos = max([order.get(id(x), -1) for x in G.order if x.get('l', 0) <= s_.get('l', 0)] or [-1]) if s_.get('e') is None else order.get(id(s_['e']), 10 ** 9)
            if pos > first_build:
                continue
            for rc_ in (1, 2, 3):
                for len_ in (0, 1, 5):
                    def bind(e, rc_=rc_, len_=len_):
                        if e.get('k') == 'call' and (e.get('clsp') or '').endswith('AtomicCount') and e.get('obj') is not None and strip_lv(e['obj']).get('f') == 'rc':
                            op = e.get('op')
                            if op in ('==', '!=', '<', '>', '<=', '>=') and e.get('a') and const_val(e['a'][0]) is not None:
                                c_ = const_val(e['a'][0])
                                return int({'==': rc_ == c_, '!=': rc_ != c_, '<': rc_ < c_, '>': rc_ > c_, '<=': rc_ <= c_, '>=': rc_ >= c_}[op])
                            if not e.get('a'):
                                return rc_
                        if e.get('k') == 'mem' and e.get('f') == 'n' and 'Data' in (e.get('fq') or ''):
                            return len_
                        if e.get('k') == 'call' and (e.get('pq') or '').endswith('::length') and not e.get('a'):
                            return len_
                        return None
                    ev = bounded.Bound(prog, f, {}, {}, bind=bind)
                    r = bounded.admitted3(ev, G.stmt_guards.get(id(s_), ()), G)
                    ctx.evaluations += 1
                    if r is None:
                        und = 'guards of the early return not evaluable'
                    elif r and rc_ > 1 and bad is None:
                        bad = (s_.get('l'), rc_, len_)
        # ... and the other way round: with the storage shared, the block that holds the private copy is built
        if builds and bad is None:
            fb = min(builds, key=lambda e: order.get(id(e), 10 ** 9))
            for rc_ in (2, 3):
                for len_ in (0, 1, 5):
                    def bind(e, rc_=rc_, len_=len_):
                        if e.get('k') == 'call' and (e.get('clsp') or '').endswith('AtomicCount') and e.get('obj') is not None and strip_lv(e['obj']).get('f') == 'rc':
                            op = e.get('op')
                            if op in ('==', '!=', '<', '>', '<=', '>=') and e.get('a') and const_val(e['a'][0]) is not None:
                                c_ = const_val(e['a'][0])
                                return int({'==': rc_ == c_, '!=': rc_ != c_, '<': rc_ < c_, '>': rc_ > c_, '<=': rc_ <= c_, '>=': rc_ >= c_}[op])
                            if not e.get('a'):
                                return rc_
                        if e.get('k') == 'mem' and e.get('f') == 'n' and 'Data' in (e.get('fq') or ''):
                            return len_
                        if e.get('k') == 'call' and (e.get('pq') or '').endswith('::length') and not e.get('a'):
                            return len_
                        return None
                    ev = bounded.Bound(prog, f, {}, {}, bind=bind)
                    r = bounded.admitted3(ev, G.of(fb), G)
                    ctx.evaluations += 1
                    if r is None:
                        und = und or 'guards of the copy not evaluable'
                    elif not r and bad is None:
                        bad = (fb.get('l'), rc_, len_)
        inst = f['q']
        if bad:
            ctx.violation('R-DUP', f['pq'], role, fwhere(f, bad[0]), 'dup() returns without detaching when %d handles share the storage (length %d): clone()/concat of such an array stay aliases of their source, appends through one show in the other and growth leaves it dangling (instantiation %s)' % (bad[1], bad[2], inst))
        elif und:
            ctx.undecided('R-DUP', f['pq'], role, fwhere(f), und)
        else:
            ctx.ok('R-DUP', f['pq'], role, fwhere(f), 'early returns are admitted only for a reference count of 1')
    return n


def check_capacity(ctx, prog):
    """R-CAP: a member that obtains a block for k elements (malloc / realloc of k * sizeof(T) + header) records k in the
    header's capacity field on every path to its exit.  CFG typestate with branch facts: a condition that was decided once
    is decided the same way again while none of its variables has been written (`if (s1 != s)` twice in reserve())."""
    n = 0
    seen = set()
    for f in prog.functions:
        if f.get('clsp') != 'asl::Array' or not f.get('body') or f.get('implicit'):
            continue
        allocs = [e for e in fn_exprs(f) if e.get('k') == 'call' and e.get('fn') in ('malloc', 'realloc') and not e.get('clsp')]
        if not allocs:
            continue
        inst = f['q']
        if (f['pq'], f.get('sig')) in seen and ctx.tier != 'thorough':
            pass
        seen.add((f['pq'], f.get('sig')))
        n += 1
        ctx.analysed(f)
        cfg = cfgm.CFG(f)

        def count_var(call):
            """printed form of the element count X in an allocation of X * sizeof(T) + sizeof(header), read through
            single-assignment locals"""
            size = strip(q.expand(f, call['a'][-1]))
            while size.get('k') == 'cast':
                size = strip(size['e'])
            if size.get('k') == 'bin' and size.get('op') == '+':
                for prod, other in ((size['x'], size['y']), (size['y'], size['x'])):
                    pr = strip(prod)
                    while pr.get('k') == 'cast':
                        pr = strip(pr['e'])
                    if const_val(other) is not None and pr.get('k') == 'bin' and pr.get('op') == '*':
                        for cnt, fac in ((pr['x'], pr['y']), (pr['y'], pr['x'])):
                            if const_val(fac) is not None and const_val(cnt) is None:
                                c_ = strip(cnt)
                                while c_.get('k') == 'cast':
                                    c_ = strip(c_['e'])
                                return pe(c_)
            return None

        def same_count(y, key):
            v = strip(q.expand(f, y))
            while v.get('k') == 'cast':
                v = strip(v['e'])
            return pe(v) == key
        problems = []

        def step(nd, st):
            alloc, facts = st
            if nd.kind == 'ev' and nd.e is not None:
                e = nd.e
                if e.get('k') == 'call' and e.get('fn') in ('malloc', 'realloc') and not e.get('clsp'):
                    v = count_var(e)
                    return (('alloc', v, e.get('l')), facts)
                tgt = None
                if e.get('k') == 'bin' and e.get('op', '').endswith('=') and e['op'] not in ('==', '!=', '<=', '>='):
                    tgt = strip_lv(e['x'])
                elif e.get('k') == 'un' and e.get('op') in ('post++', 'pre++', 'post--', 'pre--'):
                    tgt = strip_lv(e['e'])
                if tgt is not None and tgt.get('k') == 'var':
                    facts = frozenset(x for x in facts if tgt['id'] not in x[2])
                    return (alloc, facts)
                if tgt is not None and tgt.get('k') == 'mem' and tgt.get('fq') == 'asl::Array::Data::s' and e.get('op') == '=' and alloc is not None and alloc[0] == 'alloc':
                    if alloc[1] is None or same_count(e['y'], alloc[1]):
                        return (('recorded',), facts)
                    problems.append((e.get('l'), 'the capacity recorded (`%s`) is not the element count the block was allocated for' % pe(e['y'])))
                    return (('recorded',), facts)
            if nd.kind == 'decl' and nd.info.get('init') is not None:
                pass
            return st

        def edge(nd, lab, st):
            alloc, facts = st
            if nd.kind == 'br' and lab in (True, False) and nd.e is not None:
                key = pe(nd.e)
                ids = frozenset(w['id'] for w in walk_expr(nd.e) if w.get('k') == 'var')
                if any(w.get('k') in ('call', 'mem') for w in walk_expr(nd.e)):
                    return st           # depends on memory: not a stable fact
                for k_, v_, _ in facts:
                    if k_ == key and v_ != lab:
                        return None
                return (alloc, facts | frozenset([(key, lab, ids)]))
            return st
        try:
            reached, parent = cfgm.dataflow(cfg, (None, frozenset()), step, edge)
        except RuntimeError as ex:
            ctx.undecided('R-CAP', f['pq'], '%s%s:capacity recorded after allocation' % (f['n'], f['sig']), fwhere(f), str(ex))
            continue
        ctx.evaluations += sum(len(v) for v in reached.values())
        role = '%s%s:capacity recorded after allocation' % (f['n'], f['sig'])
        bad = [st for st in reached.get(cfg.exit.id, set()) if st[0] is not None and st[0][0] == 'alloc']
        if problems:
            ctx.violation('R-CAP', f['pq'], role, fwhere(f, problems[0][0]), problems[0][1] + ' (instantiation %s)' % inst)
        elif bad:
            ctx.violation('R-CAP', f['pq'], role, fwhere(f, bad[0][0][2]), 'a path returns after (re)allocating the block (line %s) without storing the new capacity in the header: later appends size the block from the stale capacity and write past it (instantiation %s)' % (bad[0][0][2], inst))
        else:
            ctx.ok('R-CAP', f['pq'], role, fwhere(f), 'every path from an allocation to the exit stores the capacity')
    return n


def check_tailmove(ctx, prog):
    """memmove(dst, src, count) that shifts the tail of the element storage: source offset + element count moved == old length
    (all expressed as linear forms over the function's int variables), so the move neither reads past the live elements nor
    leaves live elements behind."""
    n = 0
    for f in prog.functions:
        if f.get('clsp') != 'asl::Array' or not f.get('body') or f.get('implicit') or f['n'] not in ('remove', 'insert'):
            continue
        nvars = n_loads_into(f)
        esz = None
        for e in fn_exprs(f):
            if e.get('k') == 'call' and e.get('fn') == 'memmove' and len(e.get('a', [])) == 3:
                n += 1
                ctx.analysed(f)
                # element size: sizeof(T) factor in the count
                szs = [w['v'] for w in walk_expr(e['a'][2]) if w.get('k') == 'int' and w.get('sizeof') is not None]
                esz = szs[0] if szs else None
                cnt = linear(f, q.expand(f, e['a'][2], stop=nvars), 'atoms')
                role = f['n'] + ':tail move covers exactly the old tail'
                if cnt is None or not esz:
                    ctx.undecided('R-TAILMOVE', f['pq'], role, fwhere(f, e['l']), 'move count `%s` is not linear with a sizeof factor' % pe(e['a'][2]))
                    continue
                cnt = dict((kk, vv / esz) for kk, vv in cnt.items())
                # source offset in elements
                src = strip(q.expand(f, e['a'][1], stop=nvars))
                off = None
                x = src
                while x.get('k') == 'cast':
                    x = strip(x['e'])
                if x.get('k') == 'bin' and x.get('op') == '+':
                    bx = strip(x['x'])
                    scale = 1
                    tb = T(f, bx.get('t'))
                    if bx.get('k') == 'mem' and bx.get('f') == '_a':
                        off = linear(f, x['y'], 'atoms')
                    elif bx.get('k') == 'bin' and bx.get('op') == '+' and strip(bx['x']).get('f') == '_a':
                        a1, a2 = linear(f, bx['y'], 'atoms'), linear(f, x['y'], 'atoms')
                        if a1 is not None and a2 is not None:
                            off = dict(a1)
                            for kk, vv in a2.items():
                                off[kk] = off.get(kk, 0) + vv
                elif x.get('k') == 'mem' and x.get('f') == '_a':
                    off = {1: 0}
                if off is None:
                    ctx.undecided('R-TAILMOVE', f['pq'], role, fwhere(f, e['l']), 'source `%s` is not _a + linear offset' % pe(e['a'][1]))
                    continue
                total = dict(off)
                for kk, vv in cnt.items():
                    total[kk] = total.get(kk, 0) + vv
                total = dict((kk, vv) for kk, vv in total.items() if abs(vv) > 1e-9)
                ok = len(total) == 1 and list(total.values())[0] == 1 and list(total.keys())[0] in nvars
                ctx.evaluations += 1
                ctx.check(ok, 'R-TAILMOVE', f['pq'], role, fwhere(f, e['l']), 'source offset + elements moved = old length',
                          '%s moves `%s` bytes from `%s`: source offset + element count is not the old element count, so the move reads past the live elements (or leaves some behind) (%s%s)' % (f['n'], pe(e['a'][2]), pe(e['a'][1]), f['q'], f['sig']))
    return n


# ------------------------------------------------------------------------------------------------ R-ELEMREF

def elem_base(e):
    """If e designates an element of a raw array (p[i], *p, *(p+i), _a[i]): description of the base pointer, else None."""
    e = strip_lv(e)
    if e.get('k') == 'idx':
        b = strip(e['b'])
    elif e.get('k') == 'un' and e.get('op') == '*':
        b = strip(e['e'])
        while b.get('k') == 'bin' and b.get('op') in ('+', '-'):
            b = strip(b['x'])
        while b.get('k') == 'un' and b.get('op') in ('post++', 'post--', 'pre++', 'pre--'):
            b = strip(b['e'])
    else:
        return None
    if b.get('k') == 'var' or (b.get('k') == 'mem' and b.get('f') == '_a'):
        return 'storage'
    return None


def check_elemref(ctx, prog):
    """A local *reference* bound to an element must not be read after other elements of the same storage were overwritten
    (swap / assignment / move): its referent is no longer the value it was bound to (quicksort pivot, insertion helpers)."""
    n = 0
    fns = [f for f in prog.functions if (f.get('pq') in ('asl::quicksort',) or (f.get('clsp') == 'asl::Array' and f['n'] in ('sort', 'sortBy', 'reverse', 'removeIf', 'insert', 'remove')))
           and f.get('body') and not f.get('implicit')]
    for f in fns:
        n += 1
        ctx.analysed(f)
        refs = {}
        for st in ir.walk_stmts(f['body']):
            if st.get('k') == 'decl':
                for v in st['vars']:
                    if T(f, v['t']).get('ref') and v.get('init') is not None and elem_base(v['init']):
                        refs[v['id']] = v
        role = f['n'] + ':element references'
        if not refs:
            ctx.ok('R-ELEMREF', f['pq'], role, fwhere(f), 'no reference to an element is held in a local', nontrivial=False)
            continue
        cfg = cfgm.CFG(f)
        hits = []

        def step(nd, st):
            if nd.kind == 'decl' and nd.info.get('id') in refs:
                return st | frozenset([('bound', nd.info['id'])])
            if nd.kind != 'ev' or nd.e is None:
                return st
            e = nd.e
            wrote = False
            if e.get('k') == 'call' and (e.get('pq') or '').split('::')[-1] == 'swap' and any(elem_base(a) for a in e.get('a', [])):
                wrote = True
            if e.get('k') == 'bin' and e.get('op') == '=' and elem_base(e['x']):
                wrote = True
            if e.get('k') == 'call' and e.get('op') == '=' and e.get('obj') is not None and elem_base(e['obj']):
                wrote = True
            if e.get('k') == 'call' and e.get('fn') in ('memmove', 'memcpy'):
                wrote = True
            if wrote:
                return frozenset(('stale', x[1]) if x[0] == 'bound' else x for x in st)
            if e.get('k') == 'var' and ('stale', e.get('id')) in st:
                hits.append((e.get('l', 0), e.get('n')))
            return st
        reached, _ = cfgm.dataflow(cfg, frozenset(), step)
        ctx.evaluations += sum(len(v) for v in reached.values())
        if hits:
            ctx.violation('R-ELEMREF', f['pq'], role, fwhere(f, hits[0][0]),
                          'local reference `%s` is bound to an element and read again after elements of the same storage were overwritten: it no longer denotes the value it was bound to (instantiation %s%s)' % (hits[0][1], f['q'], f['sig']))
        else:
            ctx.ok('R-ELEMREF', f['pq'], role, fwhere(f), 'references to elements are not read after element writes')
    return n


# ------------------------------------------------------------------------------------------------ lifetime

CONSTRUCT = ('asl::asl_construct', 'asl::asl_construct_copy')
DESTROY = ('asl::asl_destroy',)


def is_n_store(e):
    if e.get('k') == 'bin' and e.get('op') in ('=', '-=', '+=') and strip_lv(e['x']).get('fq') == 'asl::Array::Data::n':
        return True
    return False


def n_loads_into(f):
    """locals initialised/assigned from Data::n (or from length()) -> var ids"""
    ids = set()
    for s in ir.walk_stmts(f['body']):
        if s.get('k') == 'decl':
            for v in s['vars']:
                if v.get('init') is not None and reads_n(v['init']):
                    ids.add(v['id'])
    return ids


def reads_n(e):
    for w in walk_expr(e):
        if w.get('k') == 'mem' and w.get('fq') == 'asl::Array::Data::n':
            return True
        if w.get('k') == 'call' and (w.get('pq') or '') == 'asl::Array::length':
            return True
    return False


def classify_store(f, e, nvars):
    """'carry' | 'dec' | 'inc' | 'set' for a store to Data::n"""
    op = e['op']
    if op == '-=':
        return 'dec'
    if op == '+=':
        return 'inc'
    rhs = strip(e['y'])
    if rhs.get('k') == 'var' and rhs.get('id') in nvars:
        # a local that held n: carried unchanged unless the function modifies that local
        mods = [w for w in fn_exprs(f) if (w.get('k') == 'un' and w.get('op') in ('post--', 'pre--', 'post++', 'pre++') and strip_lv(w['e']).get('id') == rhs['id']) or
                (w.get('k') == 'bin' and w.get('op') in ('-=', '+=', '=') and strip_lv(w['x']).get('id') == rhs['id'])]
        if not mods:
            return 'carry'
        if all((w.get('op') or '').endswith('--') or w.get('op') == '-=' for w in mods):
            return 'dec'
        if all((w.get('op') or '').endswith('++') or w.get('op') == '+=' for w in mods):
            return 'inc'
        return 'set'
    if rhs.get('k') == 'bin' and rhs.get('op') in ('+', '-'):
        x = strip(rhs['x'])
        if (x.get('k') == 'var' and x.get('id') in nvars) or reads_n(x):
            return 'inc' if rhs['op'] == '+' else 'dec'
    return 'set'


def check_tokens(ctx, prog):
    """C01.tokens: the mutating members of Array are interpreted at the level of element objects (tokensim) on every array
    of 0..4 elements; decided members are returned as a set of (file, line) so that the path rules below, which look at the
    same members through construct / destroy / move *events*, are only the fallback for a member the interpreter cannot
    follow."""
    import tokensim
    decided = set()
    helpers = {}
    n = 0
    for f in prog.functions:
        if f.get('clsp') != 'asl::Array' or f.get('implicit') or not f.get('body') or f['n'] not in tokensim.MEMBERS:
            continue
        if not f['q'].startswith('asl::Array<int>::'):
            continue
        if f['n'] == 'append' and len(f['params']) == 1 and T(f, T(f, f['params'][0]['t']).get('to') or f['params'][0]['t']).get('recp') != 'asl::Array':
            continue
        tokensim.HELPERS_RUN.clear()
        try:
            r = tokensim.decide(prog, f, 4)
        except RecursionError:
            r = ('undecided', '', 'recursion limit')
        if r is None:
            continue
        if r[0] in ('ok', 'bad'):
            for h in tokensim.HELPERS_RUN:
                helpers.setdefault(h, set()).add((f.get('file'), f.get('line')))
        role = '%s%s:element objects constructed and destroyed once, sequence as the reference' % (f['n'], f.get('sig') or '')
        if r[0] == 'ok':
            n += 1
            ctx.analysed(f)
            ctx.evaluations += r[1]
            ctx.ok('C01.tokens', f['pq'], role, fwhere(f), 'interpreted on %d (array, argument) cases of 0..4 elements: every object constructed once and destroyed once, no access outside the capacity, resulting sequence = reference' % r[1])
            decided.add((f.get('file'), f.get('line')))
        elif r[0] == 'bad':
            n += 1
            ctx.analysed(f)
            ctx.violation('C01.tokens', f['pq'], role, fwhere(f), '%s: in the case %s the member %s' % (f['q'] + (f.get('sig') or ''), r[1], r[2]))
            decided.add((f.get('file'), f.get('line')))
        else:
            ctx.info.setdefault('token_interpretation_fallback', []).append('%s%s: %s' % (f['q'], f.get('sig') or '', r[2]))
    ctx.info['members_decided_by_token_interpretation'] = n
    # a member interpreted as the callee of decided members, and called by nothing else in the class, was decided with them: its
    # body ran on every case of its callers (a helper split out of resize() takes the old length as a parameter; only the callers
    # say what that parameter is)
    byloc = {}
    for g in prog.functions:
        if g.get('clsp') == 'asl::Array' and g.get('body') and g['q'].startswith('asl::Array<int>::'):
            byloc.setdefault((g.get('file'), g.get('line')), g)
    callers = {}
    for loc, g in byloc.items():
        for e in fn_exprs(g):
            if e.get('k') == 'call' and e.get('clsp') == 'asl::Array':
                for h_ in prog.fn(e.get('fn'), e.get('sig')):
                    hl = (h_.get('file'), h_.get('line'))
                    if hl in helpers and hl != loc:
                        callers.setdefault(hl, set()).add(loc)
    changed = True
    covered = []
    while changed:
        changed = False
        for hl in helpers:
            if hl in decided or hl not in byloc or byloc[hl]['n'] in tokensim.MEMBERS:
                continue
            if callers.get(hl) and all(c in decided for c in callers[hl]):
                decided.add(hl)
                covered.append(byloc[hl]['n'])
                changed = True
    if covered:
        ctx.info['helpers_decided_with_their_callers'] = sorted(covered)
    return decided


def check_model(ctx, prog):
    """C01.model: the non-mutating and reordering members of Array agree with the reference sequence.  Each member of a table is
    interpreted (tokensim / scansim: the storage as slots, arrays built by the member as bounds-checked buffers, helper
    templates such as quicksort and swap interpreted from their bodies) on every array of 0..4 elements over a small value
    set and every argument in range; the result must be the reference, with no access outside the storage."""
    import tokensim, scansim, itertools
    table = [
        ('slice', '(int,int)const', lambda v: [{0: i, 1: j} for i in range(len(v) + 1) for j in range(i, len(v) + 1) if not (j == 0 and i == 0 and False)],
         lambda v, a: v[a[0]:(a[1] if a[1] != 0 else len(v))]),
        ('reversed', '()const', lambda v: [{}], lambda v, a: v[::-1]),
        ('indexOf', None, lambda v: [{0: x, 1: j} for x in (1, 2, 9) for j in range(len(v) + 1)], lambda v, a: next((k for k in range(a[1], len(v)) if v[k] == a[0]), -1)),
        ('contains', None, lambda v: [{0: x} for x in (1, 2, 9)], lambda v, a: int(a[0] in v)),
        ('sort', '()', lambda v: [{}], lambda v, a: sorted(v)),
    ]
    n = 0
    for name, sig, gen, ref in table:
        fs = [g for g in prog.functions if g.get('clsp') == 'asl::Array' and g['n'] == name and g['q'].startswith('asl::Array<int>::') and g.get('body') and (sig is None or g['sig'] == sig)]
        if not fs:
            continue
        f = fs[0]
        role = '%s%s:agrees with the reference sequence' % (name, f.get('sig') or '')
        bad = und = None
        runs = 0
        for L in range(0, 5):
            for vals in itertools.product((1, 2, 3), repeat=L):
                vals = list(vals)
                for args in gen(vals):
                    w = tokensim.World(vals, max(L, 3), 4)
                    r = tokensim.ArrayRun(prog, f, w, objects=True)
                    for k, v_ in args.items():
                        r.vars[f['params'][k]['id']] = v_
                    runs += 1
                    label = '%s.%s(%s)' % (vals, name, ', '.join(str(args[k]) for k in sorted(args)))
                    try:
                        ret = r.run()
                    except tokensim.Broken as b_:
                        bad = '%s %s' % (label, b_)
                        break
                    except scansim.OOB as o:
                        bad = '%s accesses storage outside the array: %s' % (label, o)
                        break
                    except (scansim.Unsupported, TypeError, KeyError, IndexError, AttributeError) as u:
                        und = '%s: %s' % (label, u)
                        break
                    if isinstance(ret, tuple) and ret[0] == 'P' and isinstance(ret[1], tuple) and ret[1][0] == 'O':
                        got = [tokensim.value_of(x) for x in w.bufs[ret[1]]]
                    elif ret == ('THIS',):
                        got = [tokensim.value_of(x) for x in w.bufs['A'][:w.recs['hdr']['n']]]
                    else:
                        got = tokensim.value_of(ret)
                    want = ref(vals, args)
                    if got != want:
                        bad = '%s is %s, the reference sequence gives %s' % (label, got, want)
                        break
                if bad or und:
                    break
            if bad or und:
                break
        ctx.evaluations += runs
        if und:
            ctx.info.setdefault('array_model_not_interpreted', []).append(und[:160])
            continue
        n += 1
        ctx.analysed(f)
        ctx.check(bad is None, 'C01.model', f['pq'], role, fwhere(f), 'interpreted on %d (array, argument) combinations' % runs, 'Array::%s' % bad)
    return n


def check_lifetime(ctx, prog):
    n = 0
    decided = check_tokens(ctx, prog)
    check_model(ctx, prog)
    for f in prog.functions:
        if f.get('clsp') != 'asl::Array' or f.get('implicit') or not f.get('body'):
            continue
        if (f.get('file'), f.get('line')) in decided:
            n += 1
            continue
        stores = [e for e in fn_exprs(f) if is_n_store(e)]
        frees = [e for e in fn_exprs(f) if e.get('k') == 'call' and e.get('fn') == 'free' and not e.get('clsp')]
        lifecalls = [e for e in fn_exprs(f) if e.get('k') == 'call' and (e.get('pq') in CONSTRUCT or e.get('pq') in DESTROY)]
        if not stores and not lifecalls and not (f['n'] == 'free'):
            continue
        n += 1
        ctx.analysed(f)
        nvars = n_loads_into(f)
        cfg = cfgm.CFG(f)
        inst = f['q'] + f['sig']
        name = f['n']

        # must-precede facts via dataflow: state = frozenset of {'C','D','M'} events seen (construct, destroy, gap move)
        facts = {}

        def step(nd, st):
            if nd.kind != 'ev' or nd.e is None:
                return st
            e = nd.e
            if e.get('k') == 'call':
                if e.get('pq') in CONSTRUCT:
                    st = st | frozenset('C')
                elif e.get('pq') in DESTROY:
                    if 'M' in st:
                        facts.setdefault('destroy_after_move', []).append(e.get('l', 0))
                    st = st | frozenset('DP')      # P: elements destroyed but still counted in n
                elif e.get('fn') in ('memmove', 'memcpy') and any(w.get('k') == 'mem' and w.get('f') == '_a' for w in walk_expr(e['a'][0])):
                    st = st | frozenset('M')
                elif e.get('fn') == 'free' and not e.get('clsp'):
                    facts.setdefault('free', []).append((e.get('l', 0), 'D' in st))
                    st = st - frozenset('P')       # block released
                elif e.get('clsp') == 'asl::Array' and e.get('pq') in ('asl::Array::resize', 'asl::Array::free', 'asl::Array::clear', 'asl::Array::remove') and alias.is_this_obj(e):
                    if 'P' in st:
                        facts.setdefault('pending', []).append((e.get('l', 0), pe(e)))
                    st = st | frozenset('CD')      # delegates to members that are themselves checked
            if is_n_store(e):
                facts.setdefault('stores', []).append((id(e), e.get('l', 0), st))
                st = st - frozenset('P')
            if nd.kind == 'ret' and 'P' in st:
                facts.setdefault('pending', []).append((nd.line, 'return'))
            return st
        reached, _ = cfgm.dataflow(cfg, frozenset(), step)
        ctx.evaluations += sum(len(v) for v in reached.values())

        for e in stores:
            kind = classify_store(f, e, nvars)
            seen_states = [st for (i, l, st) in facts.get('stores', []) if i == id(e)]
            role = '%s:store n (%s) `%s`' % (name, kind, pe(e))
            where = fwhere(f, e['l'])
            if kind == 'carry':
                ctx.ok('C01.lifetime', f['pq'], role, where, 'count carried unchanged across relocation', nontrivial=False)
            elif kind == 'dec':
                okk = bool(seen_states) and all('D' in st for st in seen_states)
                ctx.check(okk, 'C01.lifetime', f['pq'], role, where, 'every path to the shrinking store destroyed the removed elements',
                          'a path reaches the store that shrinks the element count without destroying the removed elements (leak / double destruction later) in ' + inst)
            elif kind == 'inc':
                okk = bool(seen_states) and all('C' in st for st in seen_states)
                ctx.check(okk, 'C01.lifetime', f['pq'], role, where, 'every path to the growing store constructed the new element',
                          'a path reaches the store that grows the element count without constructing the new element in ' + inst)
            else:
                check_set_store(ctx, f, e, role, where, inst, nvars)
        exit_states = reached.get(cfg.exit.id, set())
        if any('P' in st for st in exit_states):
            facts.setdefault('pending', []).append((f.get('end', 0), 'function exit'))
        if any(e.get('k') == 'call' and e.get('pq') in DESTROY for e in fn_exprs(f)):
            pend = facts.get('pending', [])
            ctx.check(not pend, 'C01.lifetime', f['pq'], name + ':destroyed-elements-uncounted', fwhere(f, pend[0][0] if pend else None),
                      'after destroying elements the count is lowered before anything else can destroy them again',
                      'elements are destroyed but still counted in the length when control reaches `%s`: they will be destroyed a second time (instantiation %s)'
                      % (pend[0][1] if pend else '', inst))
        if facts.get('destroy_after_move'):
            ctx.violation('C01.lifetime', f['pq'], name + ':destroy-before-gap-close', fwhere(f, facts['destroy_after_move'][0]),
                          'elements are destroyed after the tail was moved over them (destroys the wrong objects) in ' + inst)
        elif any(e.get('k') == 'call' and e.get('pq') in DESTROY for e in fn_exprs(f)) and any(e.get('k') == 'call' and e.get('fn') in ('memmove', 'memcpy') for e in fn_exprs(f)):
            ctx.ok('C01.lifetime', f['pq'], name + ':destroy-before-gap-close', fwhere(f), 'destruction precedes the gap-closing move on every path')
        if name == 'free':
            fr = facts.get('free', [])
            ctx.check(bool(fr) and all(d for _, d in fr), 'C01.lifetime', f['pq'], 'free:destroy-all-before-release', fwhere(f),
                      'all elements destroyed before the block is released', 'free() releases the block on a path where the elements were not destroyed in ' + inst)
            ds = [e for e in fn_exprs(f) if e.get('k') == 'call' and e.get('pq') in DESTROY]
            full = ds and all(len(e['a']) == 2 and reads_n(e['a'][1]) and strip(e['a'][0]).get('f') == '_a' for e in ds)
            ctx.check(bool(full), 'C01.lifetime', f['pq'], 'free:destroy-range', fwhere(f), 'destroys [_a, _a + n)', 'free() does not destroy exactly the live range [_a, _a+n) in ' + inst)
    return n


def check_set_store(ctx, f, e, role, where, inst, nvars):
    """`n = m` (resize, alloc): construct iff new > old, destroy iff new < old; alloc: fresh block, construct m."""
    name = f['n']
    new = strip(e['y'])
    cons = [c for c in fn_exprs(f) if c.get('k') == 'call' and c.get('pq') in CONSTRUCT]
    dest = [c for c in fn_exprs(f) if c.get('k') == 'call' and c.get('pq') in DESTROY]
    if name == 'alloc':
        # fresh block: constructs exactly the count it stores
        okk = len(cons) == 1 and not dest and len(cons[0]['a']) == 2 and pe(strip(cons[0]['a'][1])) == pe(new)
        ctx.check(okk, 'C01.lifetime', f['pq'], role, where, 'fresh block: constructs as many elements as the count it records',
                  'alloc() records a count different from the number of elements it constructs in ' + inst)
        return
    g = q.Guarded(f)

    def polarity_ok(call, want_new_greater):
        for c, pol, kind in g.of(call):
            cc = strip(c)
            if kind not in ('if', 'cond') or cc.get('k') != 'bin' or cc.get('op') not in ('<', '>', '<=', '>='):
                continue
            x, y = strip(cc['x']), strip(cc['y'])
            def role_of(v):
                if v.get('k') == 'var' and new.get('k') == 'var' and v.get('id') == new.get('id'):
                    return 'new'
                if (v.get('k') == 'var' and v.get('id') in nvars) or reads_n(v):
                    return 'old'
                return None
            rx, ry = role_of(x), role_of(y)
            if {rx, ry} != {'new', 'old'}:
                continue
            vals = {'new': 2, 'old': 1} if want_new_greater else {'new': 1, 'old': 2}
            a, b = vals[rx], vals[ry]
            truth = {'<': a < b, '>': a > b, '<=': a <= b, '>=': a >= b}[cc['op']]
            # and the equal case must not take the branch
            eq = {'<': False, '>': False, '<=': True, '>=': True}[cc['op']]
            return truth == pol and (eq != pol or True)
        return False
    okc = len(cons) >= 1 and all(polarity_ok(c, True) for c in cons)
    okd = len(dest) >= 1 and all(polarity_ok(c, False) for c in dest)
    ctx.check(okc and okd, 'C01.lifetime', f['pq'], role, where, 'constructs iff new length > old, destroys iff new length < old',
              '%s stores a new element count but does not construct the added tail exactly when growing and destroy the removed tail exactly when shrinking (construct ok=%s, destroy ok=%s) in %s' % (name, okc, okd, inst))


def check_rebind(ctx, prog):
    """C01.rebind: an operation that changes the array changes it for every live handle - the storage is what handles share.
    Only the assignment operators, `dup()` (whose documented purpose is to detach) and constructors may attach this handle to
    other storage; a mutator that does `*this = <another array>` (or takes the `_a` of another Array object) leaves the other
    handles with the old contents and silently separates them.  Who-may-call rule over every Array member."""
    allowed = ('operator=', 'dup', 'Array', '~Array', 'swap')
    n = 0
    seen = set()
    for f in prog.functions:
        if f.get('clsp') != 'asl::Array' or not f.get('body') or f.get('implicit'):
            continue
        key = (f.get('pq'), f.get('sig', '').split('<')[0], f.get('line'))
        sites = []
        for e in fn_exprs(f):
            if e.get('k') == 'call' and e.get('pq') == 'asl::Array::operator=' and e.get('obj') is not None and (e.get('sig') or '').startswith('(const asl::Array<'):
                o = strip_lv(e['obj'])
                while o.get('k') in ('paren', 'cast'):
                    o = strip_lv(o['e'])
                if o.get('k') == 'un' and o.get('op') == '*':
                    o = strip_lv(o['e'])
                if o.get('k') == 'this':
                    sites.append(e)
            if e.get('k') == 'bin' and e.get('op') == '=' and strip_lv(e['x']).get('k') == 'mem' and strip_lv(e['x']).get('f') == '_a' and strip_lv(strip_lv(e['x']).get('b') or {'k': 'this'}).get('k') == 'this':
                y = strip(e['y'])
                if y.get('k') == 'mem' and y.get('f') == '_a' and strip_lv(y.get('b') or {'k': 'this'}).get('k') != 'this':
                    sites.append(e)
        if not sites or key in seen:
            continue
        seen.add(key)
        n += 1
        ctx.analysed(f)
        role = '%s%s:only assignment / dup / constructors re-bind the handle' % (f['n'], f['sig'].split('<')[0])
        ctx.check(f['n'] in allowed, 'C01.rebind', f['pq'], role, fwhere(f, sites[0].get('l')), '`%s` in %s' % (pe(sites[0])[:50], f['n']),
                  '%s attaches this handle to other storage (`%s`): every other live handle on the array keeps the old contents and the handles are silently separated, although the operation is documented to change the array' % (f['n'], pe(sites[0])[:60]))
    ctx.floor('C01.rebind re-binding members', n, 2)



def check_fits(ctx, prog):
    """C01.fits: insert(k, x) - the routine behind operator<<, push and put - moves the block only when the new element does
    not fit: for every (count n, capacity s) with n + 1 <= s the realloc is not reached.  The other handles of the array point
    at the block (the documented sharing scheme); a move that is not forced by growth takes a well-formed history - a second
    handle, an append within capacity - to a state where that handle reads freed storage.  Decided by evaluating the guards of
    the reallocation on a grid of (n, s)."""
    import bounded, bytesets
    n_ = 0
    seen = set()
    for f in prog.functions:
        if f.get('pq') != 'asl::Array::insert' or not f.get('body') or len(f['params']) != 2:
            continue
        if T(f, T(f, f['params'][1]['t']).get('to') or f['params'][1]['t']).get('recp') == 'asl::Array':
            continue
        ALLOC = ('realloc', 'malloc', '::realloc', '::malloc')
        sites = [e for e in fn_exprs(f) if e.get('k') == 'call' and (e.get('fn') or '') in ALLOC]
        via = None
        if not sites:
            # the growth step split out into a member of the class (grow()): the call is the site, the guards at the call decide
            def allocs(g, depth=0):
                out = [w for w in fn_exprs(g) if w.get('k') == 'call' and (w.get('fn') or '') in ALLOC]
                if out or depth >= 2:
                    return g, out
                for w in fn_exprs(g):
                    if w.get('k') == 'call' and w.get('clsp') == 'asl::Array' and alias.is_this_obj(w):
                        for h_ in prog.fn(w.get('fn'), w.get('sig')):
                            if h_.get('body') and h_ is not g:
                                r_ = allocs(h_, depth + 1)
                                if r_[1]:
                                    return r_
                return g, []
            for w in fn_exprs(f):
                if w.get('k') == 'call' and w.get('clsp') == 'asl::Array' and alias.is_this_obj(w):
                    for h_ in prog.fn(w.get('fn'), w.get('sig')):
                        if h_.get('body') and h_ is not f:
                            hg, inner = allocs(h_)
                            if inner:
                                sites.append(w)
                                via = (hg, inner[0])
                                break
                if sites:
                    break
        role = 'insert(int,const T &):the block moves only when the element does not fit'
        if role in seen:
            continue
        if not sites:
            continue
        seen.add(role)
        n_ += 1
        ctx.analysed(f)
        g = q.Guarded(f)
        e = sites[0]
        try:
            by_id, by_text = {}, {}
            for c, pol, kind in g.of(e):
                if isinstance(c, dict) and kind != 'case':
                    bi, bt = bounded.atoms_of(prog, f, c)
                    by_id.update(bi)
                    by_text.update(bt)
        except bytesets.Undecidable as u:
            ctx.undecided('C01.fits', f['pq'], role, fwhere(f, e['l']), 'guards of the reallocation not evaluable: %s' % u)
            continue
        cnt = [t for t in by_text if by_text[t].get('k') == 'mem' and by_text[t].get('f') == 'n']
        cap = [t for t in by_text if by_text[t].get('k') == 'mem' and by_text[t].get('f') == 's']
        if by_id or len(by_text) != 2 or len(cnt) != 1 or len(cap) != 1:
            ctx.undecided('C01.fits', f['pq'], role, fwhere(f, e['l']), 'the guards of the reallocation are not a relation between the element count and the capacity of the header (%s)' % sorted(list(by_text) + list(by_id.values())))
            continue
        ct, cp = cnt[0], cap[0]
        st, info = bounded.decide(prog, f, g.of(e), lambda ev: ev.by_text[ct] > ev.by_text[cp] or ev.by_text[ct] + 1 > ev.by_text[cp], {}, by_text, range(0, 9), G=g)
        ctx.evaluations += 81
        if st == 'holds':
            ctx.ok('C01.fits', f['pq'], role, fwhere(f, e['l']), 'the reallocation is reached only for n + 1 > s on the (n, s) grid (%s points)' % info)
        elif st == 'fails' and via and any(kind in ('if', 'cond', 'and', 'or') for c, pol, kind in q.Guarded(via[0]).of(via[1])):
            ctx.undecided('C01.fits', f['pq'], role, fwhere(f, e['l']), 'the call of %s is reached when the element fits, and the reallocation inside it stands under further conditions that are not evaluated here' % via[0]['n'])
        elif st == 'fails':
            ctx.violation('C01.fits', f['pq'], role, fwhere(f, e['l']), 'with %s the element fits, yet the block is reallocated: another handle of the array keeps the old block (reads and its destructor touch freed storage), although nothing had to grow' % ', '.join('%s = %s' % kv for kv in sorted(info.items())))
        else:
            ctx.undecided('C01.fits', f['pq'], role, fwhere(f, e['l']), str(info))
    return n_
