"""C14 - SocketServer: structural clauses decided statically.

 C14.dispatch   in the accept loop every accepted socket reaches exactly one of {serve() inline, a new handler thread} on every path;
                the in-flight counter is incremented on every path BEFORE that hand-over; the sequential branch and the handler thread
                each run serve -> close -> decrement exactly once in that order, the decrement being the last access to the server
 C14.stop       `_running = false` is stored only where the stop request (or a wait error) was observed, immediately leaving the loop;
                stop(true) waits on (_running || clients in flight)
 R-JOIN         a started Thread object is deleted only after join() (or, for a server that was never stopped, after kill());
                no `delete this` inside a Thread::run override (the trampoline writes the object afterwards)
 C14.close      Socket_::close() invalidates the handle after closing it, so the destructor cannot close a recycled descriptor again
 Behaviour under OS scheduling and data-race freedom of the plain bool flags are not decided."""
import os
import ir, q, cfg as cfgm
from ir import strip, strip_lv, const_val, T, pe, walk_expr, fn_exprs, AnalysisBroken
from core import fwhere


def run(ctx):
    units = [os.path.join(ir.REPO, 'src', x) for x in ('SocketServer.cpp', 'Socket.cpp')]
    if ctx.tier == 'thorough':
        units += [u for u in ir.library_units() if u not in units]
    prog = ir.load_units(units)
    ctx.use_program(prog)
    check_dispatch(ctx, prog)
    check_stop(ctx, prog)
    check_active(ctx, prog)
    check_scan_and_listeners(ctx, prog)
    check_join(ctx, prog, 'C14')
    check_close(ctx, prog)
    # an accepted connection is built through Socket_(int fd): it must start in the same state (no error, blocking, native
    # byte order) as a socket built through the default constructor
    import ctorinit
    n_c = ctorinit.check(ctx, prog, 'C14.init', [r for r in sorted(prog.records) if r.startswith('asl::') and r.endswith('Socket_')],
                         consequence=' - the connection handed to serve() may already report an error, so reads return nothing')
    ctx.floor('C14.init constructors of the socket classes compared', n_c, 2)
    check_sigpipe(ctx, prog)
    check_nfds(ctx, prog)
    # a serve() that reads from a client which closed early must return: the blocking read stops at end of stream (shared rule)
    import C16
    C16.PROG = prog
    C16.check_partial(ctx, prog, rule='C14.partial', files=False)
    fixture = os.path.join(ir.VERIF, 'fixtures', 'selfdelete_bad.cpp')
    fprog = ir.load_units([fixture])
    fctx = type(ctx)(ctx.prop, ctx.tier, ctx.seed)
    check_join(fctx, fprog, 'fixture', floor=False)
    fired = set((o.rule, o.role.split(':')[0]) for o in fctx.obligations if o.status == 'violation')
    ctx.control('fixtures/selfdelete_bad.cpp:R-JOIN.selfdelete', any(r == 'R-JOIN.selfdelete' for r, _ in fired))
    ctx.control('fixtures/selfdelete_bad.cpp:R-JOIN', any(r == 'R-JOIN' for r, _ in fired))
    return __doc__.split('\n\n', 1)[1]


def fn1(prog, name, sig=None):
    fs = [f for f in prog.fn(name, sig) if f.get('body')]
    if not fs:
        raise AnalysisBroken('anchor %s not found' % name)
    return fs[0]


def is_counter(e):
    e = strip_lv(e)
    return e.get('k') == 'mem' and e.get('f') == '_numClients'


def counter_op(e):
    if e.get('k') == 'call' and e.get('clsp') == 'asl::AtomicCount' and e.get('obj') is not None and is_counter(e['obj']):
        if e.get('pq', '').endswith('operator++'):
            return 'inc'
        if e.get('pq', '').endswith('operator--'):
            return 'dec'
    return None


def is_serve(e):
    return e.get('k') == 'call' and (e.get('pq') or '').endswith('::serve') and e.get('clsp') == 'asl::SocketServer'


def is_spawn(e):
    return e.get('k') == 'new' and 'SockClientThread' in (e.get('_at') or '') or (e.get('k') == 'new' and e.get('init') is not None and 'SockClientThread' in (strip(e['init']).get('cls') or ''))


def is_close(e):
    return e.get('k') == 'call' and (e.get('pq') or '') in ('asl::Socket::close', 'asl::Socket_::close')


def check_dispatch(ctx, prog):
    f = fn1(prog, 'asl::SocketServer::startLoop')
    ctx.analysed(f)
    cfg = cfgm.CFG(f)
    problems = []

    def step(nd, st):
        # st = (accepted?, incs, hand-overs, closes, decs, order-string)
        if nd.kind == 'decl' and nd.info.get('init') is not None and any(w.get('k') == 'call' and (w.get('pq') or '').endswith('::accept') for w in walk_expr(nd.info['init'])):
            if st[0] and st[2] != 1:
                problems.append((nd.line, 'an accepted socket was handed over %d times before the next accept' % st[2]))
            return (True, 0, 0, '', st[4])
        if nd.kind != 'ev' or nd.e is None or not st[0]:
            return st
        e = nd.e
        acc, incs, hand, order, _ = st
        op = counter_op(e)
        if op == 'inc':
            return (acc, incs + 1, hand, order + 'I', st[4])
        if is_serve(e):
            if incs < 1:
                problems.append((e.get('l', 0), 'serve() starts before the in-flight counter was incremented'))
            return (acc, incs, hand + 1, order + 'S', st[4])
        if is_spawn(e):
            if incs < 1:
                problems.append((e.get('l', 0), 'a handler thread is created before the in-flight counter was incremented: stop(true) can see zero clients while a serve() is about to start'))
            return (acc, incs, hand + 1, order + 'T', st[4])
        if is_close(e):
            return (acc, incs, hand, order + 'C', st[4])
        if op == 'dec':
            return (acc, incs, hand, order + 'D', st[4])
        return st
    reached, _ = cfgm.dataflow(cfg, (False, 0, 0, '', 0), cfgm.follow_helpers(prog, f, step))
    ctx.evaluations += sum(len(v) for v in reached.values())
    # states at the loop back edge / exit: every accepted socket handed over exactly once, with order I..S C D or I..T
    finals = set()
    for nid, sts in reached.items():
        for st in sts:
            if st[0]:
                finals.add(st[3])
    complete = [o for o in finals if o.endswith('D') or o.endswith('T')]
    bad_orders = [o for o in complete if o not in ('ISCD', 'IT')]
    anyacc = any(st[0] for sts in reached.values() for st in sts)
    if not anyacc:
        raise AnalysisBroken('accept() not found in startLoop')
    ctx.check(not problems, 'C14.dispatch', f['pq'], 'startLoop:count before hand-over', fwhere(f, problems[0][0] if problems else None),
              'the counter is incremented before serve()/handler creation on every path', problems[0][1] if problems else '')
    ctx.check(bool(complete) and not bad_orders and {'ISCD', 'IT'} <= set(complete), 'C14.dispatch', f['pq'], 'startLoop:exactly one hand-over per accepted socket', fwhere(f),
              'paths per accepted socket: inline (inc, serve, close, dec) or (inc, new handler thread)',
              'per accepted socket the accept loop performs the event sequences %s; expected exactly inc-serve-close-dec (sequential) or inc-spawn (concurrent)' % sorted(complete))
    # handler thread
    hs = [g for g in prog.functions if g.get('n') == 'run' and 'SockClientThread' in (g.get('cls') or '') and g.get('body')]
    if not hs:
        raise AnalysisBroken('SockClientThread::run not found')
    g = hs[0]
    ctx.analysed(g)
    order = ''
    last_server_use = None
    for e in q.fn_exprs_inlined(prog, g):
        if is_serve(e):
            order += 'S'
        elif is_close(e):
            order += 'C'
        elif counter_op(e) == 'dec':
            order += 'D'
        elif counter_op(e) == 'inc':
            order += 'I'
    seq = list(q.fn_exprs_inlined(prog, g))
    dec_pos = [i for i, e in enumerate(seq) if counter_op(e) == 'dec']
    in_dec = set(id(x) for x in walk_expr(seq[dec_pos[-1]])) if dec_pos else set()
    srv_params = set()
    for h_ in prog.functions:
        # a helper that receives the server as a parameter: uses of that parameter are uses of the server
        if h_.get('body') and h_.get('file') == g.get('file'):
            for p_ in h_['params']:
                if 'SocketServer' in (T(h_, T(h_, p_['t']).get('to') or p_['t']).get('s') or ''):
                    srv_params.add(p_['id'])
    after = [e for e in seq[dec_pos[-1] + 1:] if id(e) not in in_dec and ((e.get('k') == 'mem' and e.get('f') == '_server') or (e.get('k') == 'var' and e.get('id') in srv_params))] if dec_pos else []
    ctx.check(order == 'SCD', 'C14.dispatch', g['pq'], 'handler:serve, close, decrement once each in order', fwhere(g), 'serve -> close -> decrement',
              'the handler thread performs %s (S=serve, C=close, D=decrement, I=increment) instead of exactly serve, close, decrement' % (order or 'nothing'))
    ctx.check(bool(dec_pos) and not after, 'C14.dispatch', g['pq'], 'handler:decrement is the last access to the server', fwhere(g), 'no use of _server after the decrement',
              'the handler touches the server object after decrementing the in-flight counter: stop(true) may already have returned and the server been destroyed')


def check_active(ctx, prog):
    """C14.active: the accept loop calls the (blocking) accept() only on a socket that the last waitInput() reported readable:
    the receiver is `_sockets.activeAt(i)` (an element of the `changed` list), or the call is guarded by a predicate on the
    socket set whose body consults that list.  accept() on an idle listening socket blocks the loop: connections on the
    other endpoints are no longer served and a stop request is never seen."""
    f = fn1(prog, 'asl::SocketServer::startLoop')
    G = q.Guarded(f)
    accepts = [e for e in fn_exprs(f) if e.get('k') == 'call' and (e.get('pq') or '').endswith('::accept')]
    if not accepts:
        raise AnalysisBroken('accept() not found in startLoop')
    # which member of Sockets does waitInput() fill with the readable sockets?
    wi = fn1(prog, 'asl::Sockets::waitInput')
    filled = set(strip_lv(e.get('obj') or {}).get('f') for e in fn_exprs(wi) if e.get('k') == 'call' and e.get('op') == '<<' and strip_lv(e.get('obj') or {}).get('k') == 'mem')
    filled.discard(None)
    def consults_active(g, depth=0):
        return any(w.get('k') == 'mem' and w.get('f') in filled for w in fn_exprs(g))
    for e in accepts:
        role = 'startLoop:accept() only on a socket reported readable'
        recv = strip(q.expand(f, e.get('obj') or {}))
        while recv.get('k') in ('cast', 'temp'):
            recv = strip(recv['e'])
        ok = None
        why = ''
        if recv.get('k') == 'call':
            cands = [g for g in prog.fn(recv.get('fn'), recv.get('sig')) if g.get('body')]
            if cands and consults_active(cands[0]):
                ok, why = True, 'receiver is %s(..), an element of the list waitInput() filled' % recv['fn'].split('::')[-1]
        if ok is None:
            for c, pol, kind in G.of(e):
                if not isinstance(c, dict):
                    continue
                for w in walk_expr(q.expand(f, c, bools_only=True)):
                    if w.get('k') == 'call' and (w.get('clsp') or '').endswith('Sockets') and w.get('a') and 'Socket' in (T(f, strip_lv(w['a'][0]).get('t')).get('s') or ''):
                        cands = [g for g in prog.fn(w.get('fn'), w.get('sig')) if g.get('body')]
                        if cands and consults_active(cands[0]):
                            ok, why = True, 'guarded by %s(..), which consults the list waitInput() filled' % w['fn'].split('::')[-1]
                        elif cands and ok is None:
                            ok, why = False, 'the guard %s(..) does not consult the list of sockets waitInput() reported (%s)' % (w['fn'].split('::')[-1], sorted(filled))
        ctx.evaluations += 1
        if ok is None:
            ok, why = False, 'the receiver `%s` is not taken from the sockets waitInput() reported' % pe(e.get('obj') or {})
        if not filled:
            ctx.undecided('C14.active', f['pq'], role, fwhere(f, e.get('l')), 'the list filled by Sockets::waitInput was not identified')
        else:
            ctx.check(ok, 'C14.active', f['pq'], role, fwhere(f, e.get('l')), why, 'accept() can be called on an idle listening socket: %s; the blocking accept stalls the loop (other endpoints unserved, stop(true) never returns)' % why)


def check_scan_and_listeners(ctx, prog):
    """C14.scan: Sockets::waitInput() examines every socket of the set when it collects the readable ones (the loop that fills the
    `changed` list runs set.length() times whatever select() returned).  C14.listeners: while the accept loop may run, only the
    loop itself touches the listening sockets: stop() does not close or modify `_sockets`."""
    import bounded, bytesets
    wi = fn1(prog, 'asl::Sockets::waitInput')
    ctx.analysed(wi)
    role = 'waitInput:every socket of the set is examined'
    fill = [lp for lp in ir.walk_stmts(wi['body']) if lp.get('k') in ('for', 'while') and any(e.get('k') == 'call' and e.get('op') == '<<' and strip_lv(e.get('obj') or {}).get('k') == 'mem' for e in ir.stmt_exprs(lp['body']))]
    if len(fill) != 1:
        ctx.undecided('C14.scan', wi['pq'], role, fwhere(wi), 'loop that collects the readable sockets not found')
    else:
        cl = q.counted_loop(wi, fill[0])
        lens = set(pe(w) for w in fn_exprs(wi) if w.get('k') == 'call' and (w.get('pq') or '').endswith('::length') and strip_lv(w.get('obj') or {}).get('f') == 'set')
        if (cl is None or not isinstance(cl['step'], int)) and len(lens) == 1 and fill[0].get('c') is not None:
            # not in counting normal form (the index is stepped inside the body): the bound must still be the set length alone
            cx = q.expand(wi, fill[0]['c'])
            calls_ = set(pe(w) for w in walk_expr(cx) if w.get('k') == 'call')
            ctx.check(calls_ == lens, 'C14.scan', wi['pq'], role, fwhere(wi, fill[0]['l']), 'the collecting loop is bounded by set.length() only',
                      'the loop that collects the readable sockets is bounded by `%s`, not by the number of sockets in the set' % pe(fill[0]['c']))
        elif cl is None or not isinstance(cl['step'], int) or len(lens) != 1:
            ctx.undecided('C14.scan', wi['pq'], role, fwhere(wi, fill[0]['l']), 'collecting loop is not a recognised counting loop over the set')
        else:
            lt = list(lens)[0]
            bad = None
            try:
                by_id, _bt = bounded.atoms_of(prog, wi, cl['cond'], allow_assigned=(cl['var'],))
                others = [i for i in by_id if i != cl['var']]
                other_texts = [t for t in _bt if t != lt]
                for L in range(1, 5):
                    for r in range(1, L + 1):
                        texts = dict((t, r) for t in other_texts)
                        texts[lt] = L
                        init = bounded.Bound(prog, wi, dict((o, r) for o in others), texts).ev(cl['init'])
                        trips = 0
                        while trips <= 16 and bounded.Bound(prog, wi, dict([(cl['var'], init + trips * cl['step'])] + [(o, r) for o in others]), texts).ev(cl['cond']):
                            trips += 1
                        ctx.evaluations += 1
                        if trips != L and bad is None:
                            bad = (L, r, trips)
                ctx.check(bad is None, 'C14.scan', wi['pq'], role, fwhere(wi, fill[0]['l']), 'the collecting loop runs set.length() times for every select() result',
                          'with %d sockets in the set and select() reporting %d ready, the collecting loop examines only %d socket(s): a connection pending on a later-bound endpoint is never accepted (and the loop spins)' % (bad if bad else (0, 0, 0)))
            except bytesets.Undecidable as u:
                ctx.undecided('C14.scan', wi['pq'], role, fwhere(wi, fill[0]['l']), 'loop bounds not evaluable: %s' % u)
    # C14.fresh: the list (and the count) waitInput() hands to the accept loop describes this call only: on every path that
    # returns a value computed from the list, the list was emptied during this call (a timeout must not return the sockets of
    # the previous wake-up - accept() would block on them and the stop request would never be seen)
    filled = set(strip_lv(e['obj']).get('f') for lp in fill for e in ir.stmt_exprs(lp['body']) if e.get('k') == 'call' and e.get('op') == '<<' and strip_lv(e.get('obj') or {}).get('k') == 'mem')
    role = 'waitInput:the reported sockets are those of this call'
    if len(filled) != 1:
        ctx.undecided('C14.fresh', wi['pq'], role, fwhere(wi), 'list of readable sockets not identified')
    else:
        fld = list(filled)[0]
        gw = cfgm.CFG(wi)
        stale = []

        def empties(e):
            if e.get('k') == 'call' and e.get('obj') is not None and strip_lv(e['obj']).get('k') == 'mem' and strip_lv(e['obj']).get('f') == fld:
                nm = (e.get('pq') or '').split('::')[-1]
                return nm == 'clear' or (nm == 'resize' and e.get('a') and const_val(e['a'][0]) == 0) or (nm == 'operator=' or e.get('op') == '=')
            return e.get('k') == 'bin' and e.get('op') == '=' and strip_lv(e['x']).get('k') == 'mem' and strip_lv(e['x']).get('f') == fld

        def st_w(nd, st):
            if nd.kind == 'ev' and nd.e is not None and empties(nd.e):
                return True
            if nd.kind == 'ret' and nd.e is not None and not st and any(w.get('k') == 'mem' and w.get('f') == fld for w in walk_expr(q.expand(wi, nd.e))):
                stale.append(nd.line)
            return st
        rw, _ = cfgm.dataflow(gw, False, cfgm.follow_helpers(prog, wi, st_w))
        ctx.evaluations += sum(len(x) for x in rw.values())
        ctx.check(not stale, 'C14.fresh', wi['pq'], role, fwhere(wi, stale[0] if stale else None), 'every return computed from `%s` follows its clear()' % fld,
                  'waitInput() can return at line %s a count computed from `%s` without having emptied it in this call: after a timeout it reports the sockets of the previous wake-up, the accept loop calls the blocking accept() '
                  'on a listener with nothing pending and never looks at the stop request again' % (stale[0] if stale else '', fld))
    s = fn1(prog, 'asl::SocketServer::stop')
    touching = [e for e in fn_exprs(s) if e.get('k') == 'call' and e.get('obj') is not None and any(w.get('k') == 'mem' and w.get('f') == '_sockets' for w in walk_expr(e['obj'])) and 'const' not in (e.get('sig') or '').split(')')[-1]]
    ctx.evaluations += 1
    ctx.check(not touching, 'C14.listeners', s['pq'], 'stop:the listening sockets are left to the accept loop', fwhere(s, touching[0]['l'] if touching else None), 'stop() only sets the request and waits',
              'stop() calls `%s` while the accept loop may still be walking the sockets of its last waitInput(): accept() then runs on a closed listener and serve() is handed an invalid socket (the queued connection is lost)' % (pe(touching[0]) if touching else ''))


def check_stop(ctx, prog):
    f = fn1(prog, 'asl::SocketServer::startLoop')
    cfg = cfgm.CFG(f)
    # (a) once `_running = false` is stored, the accept loop is over: no wait / accept is reachable afterwards
    # (b) every way out of startLoop has stored it (else stop(true) never returns)
    def is_clear(e):
        return e.get('k') == 'bin' and e.get('op') == '=' and strip_lv(e['x']).get('f') == '_running' and const_val(e['y']) == 0

    def is_loop_work(e):
        return e.get('k') == 'call' and (e.get('pq') or '').split('::')[-1] in ('waitInput', 'accept')
    problems = []

    def step(nd, st):
        if nd.kind in ('ev', 'decl') and nd.kind == 'ev' and nd.e is not None:
            if is_clear(nd.e):
                return True
            if st and is_loop_work(nd.e):
                problems.append(nd.line)
        return st
    def edge(nd, lab, st):
        # `while (true)` / `for (;;)`: the constant condition has one feasible edge
        if nd.kind == 'br' and nd.e is not None and const_val(nd.e) is not None and lab is not None and bool(const_val(nd.e)) != lab:
            return None
        return st
    reached, _ = cfgm.dataflow(cfg, False, step, edge)
    ctx.evaluations += sum(len(v) for v in reached.values())
    stores = [e for e in fn_exprs(f) if is_clear(e)]
    works = [e for e in fn_exprs(f) if is_loop_work(e)]
    role = 'startLoop:_running cleared only on the exit path'
    if not stores or not works:
        if not works:
            raise AnalysisBroken('startLoop: waitInput()/accept() not found')
        ctx.violation('C14.stop', f['pq'], role, fwhere(f), 'startLoop never stores `_running = false`: stop(true) waits for ever and running() stays true after the loop has ended')
    else:
        exits = reached.get(cfg.exit.id, set())
        if problems:
            ctx.violation('C14.stop', f['pq'], role, fwhere(f, problems[0]), 'after `_running = false` was stored the accept loop can still wait for / accept a connection (line %s): stop(true) may return while serve() calls still start' % problems[0])
        elif False in exits:
            ctx.violation('C14.stop', f['pq'], role, fwhere(f, stores[0]['l']), 'startLoop can return without storing `_running = false`: stop(true) then waits for ever')
        else:
            ctx.ok('C14.stop', f['pq'], role, fwhere(f, stores[0]['l']), 'no wait/accept is reachable after the store, and every exit has passed it')
    # (c) the request is for every in-flight serve() as well (`while (connected && !_requestStop)`): the accept loop must not take
    # it back once it has started waiting for connections - a clear before the first wait (a restart) is not concerned
    def is_unrequest(e):
        return e.get('k') == 'bin' and e.get('op') == '=' and strip_lv(e['x']).get('f') == '_requestStop' and const_val(e['y']) == 0
    taken_back = []

    def step2(nd, st):
        if nd.kind == 'ev' and nd.e is not None:
            for w in walk_expr(nd.e):
                if st and is_unrequest(w):
                    taken_back.append(nd.line)
                if is_loop_work(w):
                    st = True
        return st
    # when startLoop() is the body of the accept thread (called from a run() / thread function), it runs concurrently with the
    # creator from its first statement: stop() may already have been called when the thread gets there, so a clear at the top
    # erases a request as well (the clear for a restart belongs in start(), before the thread is created)
    threaded = [g for g in prog.functions if g.get('body') and g is not f and (g['n'] == 'run' or g.get('lambda') or g['n'].startswith('operator()')) and
                any(w.get('k') == 'call' and (w.get('pq') or '') == f.get('pq') for w in fn_exprs(g))]
    cfgm.dataflow(cfg, bool(threaded), step2, edge)
    ctx.check(not taken_back, 'C14.stop', f['pq'], 'startLoop:the stop request is not taken back by the loop', fwhere(f, taken_back[0] if taken_back else None),
              'no `_requestStop = false` after the first wait/accept' + (', nor anywhere in the loop function, which %s runs as the accept thread' % threaded[0]['pq'] if threaded else ''),
              'the accept loop stores `_requestStop = false` (line %s) %s: a stop() issued a moment earlier is erased - the loop does not end (or a serve() that polls the flag never sees the request), and stop(true) does not return' % (
                  taken_back[0] if taken_back else '', 'while it runs as the accept thread (%s), concurrently with its creator' % threaded[0]['pq'] if threaded else 'after it started accepting'))
    # stop(true): sets the request, then returns only when the loop has ended and no serve() is in flight.  Decided on the CFG
    # of stop(): with (sync, _running, _numClients) bound, follow only the branch edges their conditions allow, starting after
    # the poll sleep: the function exit may be reachable without sleeping again only for (_running, _numClients) = (false, 0)
    s = fn1(prog, 'asl::SocketServer::stop')
    ctx.analysed(s)
    role = 'stop(true):waits for the loop and for every in-flight serve()'
    scfg = cfgm.CFG(s)
    req = [n for n in scfg.nodes if n.kind == 'ev' and n.e is not None and n.e.get('k') == 'bin' and n.e.get('op') == '=' and strip_lv(n.e['x']).get('f') == '_requestStop' and const_val(n.e['y']) == 1]
    sleeps = [n for n in scfg.nodes if n.kind == 'ev' and n.e is not None and n.e.get('k') == 'call' and (n.e.get('fn') or n.e.get('pq') or '').split('::')[-1] in ('sleep', 'usleep')]
    if not req:
        ctx.violation('C14.stop', s['pq'], role, fwhere(s), 'stop() does not set the stop request')
    elif not sleeps:
        ctx.undecided('C14.stop', s['pq'], role, fwhere(s), 'no polling sleep found in stop()')
    else:
        import bounded
        sync = s['params'][0]['id'] if s.get('params') else None

        def can_return(running, clients):
            def bind(e):
                if e.get('k') == 'mem' and e.get('f') == '_running':
                    return running
                if e.get('k') == 'call' and e.get('obj') is not None and is_counter(e['obj']):
                    op = e.get('op')
                    if op in ('>', '<', '>=', '<=', '==', '!=') and e.get('a') and const_val(e['a'][0]) is not None:
                        c = const_val(e['a'][0])
                        return int({'>': clients > c, '<': clients < c, '>=': clients >= c, '<=': clients <= c, '==': clients == c, '!=': clients != c}[op])
                    if not e.get('a') and T(s, e.get('t')).get('int'):
                        return clients          # conversion to int
                return None
            ev = bounded.Bound(prog, s, {sync: 1} if sync is not None else {}, {}, bind=bind)
            # from every polling sleep - and from the entry of stop() - can the exit be reached without sleeping (again)?
            def lvar(x):
                x = strip(x)
                while x.get('k') in ('paren', 'cast'):
                    x = strip(x['e'])
                return x.get('id') if x.get('k') == 'var' else None
            for start in list(sleeps) + [scfg.entry]:
                seen = set()
                # local flags (`busy = _running || _numClients > 0;`) are followed: the state of the walk carries their values
                work = [(m, frozenset()) for m, _ in start.succ]
                while work:
                    n, envf = work.pop()
                    if n is scfg.exit:
                        return True
                    if (n.id, envf) in seen or n in sleeps:
                        continue
                    seen.add((n.id, envf))
                    env = dict(envf)
                    want = None
                    if n.kind == 'decl' and isinstance(n.info, dict) and n.info.get('id') is not None and n.info.get('init') is not None:
                        v_ = ev.ev3(n.info['init'])
                        env[n.info['id']] = None if v_ is None else bool(v_)
                    elif n.kind == 'ev' and n.e is not None and n.e.get('k') == 'bin' and n.e.get('op') == '=' and lvar(n.e['x']) is not None:
                        v_ = ev.ev3(n.e['y'])
                        env[lvar(n.e['x'])] = None if v_ is None else bool(v_)
                    elif n.kind == 'br':
                        vid = lvar(n.e)
                        if vid is not None and env.get(vid) is not None:
                            want = env[vid]
                        else:
                            want = ev.ev3(n.e)
                    envf2 = frozenset((k_, v_) for k_, v_ in env.items() if v_ is not None)
                    for m, lab in n.succ:
                        if want is not None and lab is not None and lab != want:
                            continue
                        work.append((m, envf2))
            return False
        res = dict(((r, c), can_return(r, c)) for r in (0, 1) for c in (0, 1, 3))
        ctx.evaluations += 6
        early = [k for k, v in res.items() if v and k != (0, 0)]
        if early:
            r, c = early[0]
            ctx.violation('C14.stop', s['pq'], role, fwhere(s, sleeps[0].line), 'stop(true) can return while %s' % (
                'the accept loop is still running' if r else '%d serve() call(s) are still in flight' % c))
        elif not res[(0, 0)]:
            ctx.violation('C14.stop', s['pq'], role, fwhere(s, sleeps[0].line), 'stop(true) never returns: its wait does not end when the loop has stopped and no client is in flight')
        else:
            # the request is set before the wait
            order = [n.id for n in scfg.nodes]
            ctx.check(req[0].line <= sleeps[0].line, 'C14.stop', s['pq'], role, fwhere(s), 'sets the request, then returns only when !_running && _numClients == 0',
                      'stop() sets the stop request only after waiting')
    st = fn1(prog, 'asl::SocketServer::start')
    ctx.analysed(st)
    seq = list(fn_exprs(st))
    run_pos = [i for i, e in enumerate(seq) if e.get('k') == 'bin' and e.get('op') == '=' and strip_lv(e['x']).get('f') == '_running' and const_val(e['y']) == 1]
    start_pos = [i for i, e in enumerate(seq) if e.get('k') == 'call' and ((e.get('pq') or '') in ('asl::Thread::start', 'asl::SocketServer::startLoop'))]
    ctx.check(bool(run_pos) and bool(start_pos) and run_pos[0] < min(start_pos), 'C14.stop', st['pq'], 'start:_running set before the loop can run', fwhere(st), '_running = true precedes thread start / loop',
              'start() does not set _running before the accept loop can run: a stop(true) issued right after start() returns at once')


def check_join(ctx, prog, tag, floor=True):
    n = 0
    # (a) no `delete this` in a Thread::run override
    for f in prog.functions:
        if f.get('n') != 'run' or f.get('kind') != 'method' or not f.get('body') or f.get('params'):
            continue
        if not any('asl::Thread::run' in o for o in f.get('overrides', [])):
            continue
        n += 1
        ctx.analysed(f)
        dels = [e for e in fn_exprs(f) if e.get('k') == 'delete' and strip(e['e']).get('k') == 'this']
        if dels:
            ctx.violation('R-JOIN.selfdelete', f['pq'], 'delete this in a Thread::run override', fwhere(f, dels[0]['l']),
                          '%s deletes its own object inside run(); Thread::begin stores the finished flag into it afterwards (write to freed memory)' % f['q'])
        else:
            ctx.ok('R-JOIN.selfdelete', f['pq'], 'delete this in a Thread::run override', fwhere(f), 'run() does not delete its object')
    # (b) delete of a Thread object only after join (or kill on the not-stopped branch)
    m = 0
    for f in prog.functions:
        if not f.get('body'):
            continue
        dels = [e for e in fn_exprs(f) if e.get('k') == 'delete' and (e.get('dtorp') or '').split('::')[-1] in ('~Thread', '~SockServerThread', '~SockClientThread', '~SelfDeleting') and strip(e['e']).get('k') != 'this']
        if not dels:
            continue
        dt = T(f, dels[0].get('dt'))
        m += 1
        ctx.analysed(f)
        cfg = cfgm.CFG(f)
        bad = []

        def step(nd, st):
            if nd.kind != 'ev' or nd.e is None:
                return st
            e = nd.e
            if e.get('k') == 'call' and e.get('pq') == 'asl::Thread::join':
                return 'joined'
            if e.get('k') == 'call' and e.get('pq') == 'asl::Thread::kill':
                return 'killed' if st == 'running-branch' else st
            if e.get('k') == 'delete' and e in dels:
                if st not in ('joined', 'killed'):
                    bad.append(e.get('l', 0))
            return st

        def edge(nd, lab, st):
            if nd.kind == 'br' and lab is True and strip(nd.e).get('k') == 'mem' and strip(nd.e).get('f') == '_running':
                return 'running-branch'
            return st
        reached, _ = cfgm.dataflow(cfg, 'start', step, edge)
        ctx.evaluations += sum(len(v) for v in reached.values())
        ctx.check(not bad, 'R-JOIN', f['pq'], f['n'] + ':thread deleted only after join', fwhere(f, bad[0] if bad else None), 'join() (or kill() of a running server) precedes delete on every path',
                  '%s deletes a Thread object on a path where it was neither joined nor (for a server still running) killed: its trampoline may still be storing into it' % f['q'])
    if floor:
        ctx.floor('R-JOIN run overrides', n, 2)
        ctx.floor('R-JOIN thread deletions', m, 1)


def check_close(ctx, prog):
    f = fn1(prog, 'asl::Socket_::close')
    ctx.analysed(f)
    cfg = cfgm.CFG(f)

    def step(nd, st):
        # state: (the descriptor was closed, the handle member holds an invalid value)
        if nd.kind != 'ev' or nd.e is None:
            return st
        e = nd.e
        if e.get('k') == 'call' and e.get('fn') in ('close', 'closesocket') and not e.get('clsp'):
            return (True, st[1])
        if e.get('k') == 'bin' and e.get('op') == '=' and strip_lv(e['x']).get('f') == '_handle':
            return (st[0], (const_val(e['y']) or 0) < 0)
        return st
    reached, _ = cfgm.dataflow(cfg, (False, False), cfgm.follow_helpers(prog, f, step))
    exits = reached.get(cfg.exit.id, set())
    ctx.check(any(c for c, _i in exits) and all(i for c, i in exits if c), 'C14.close', f['pq'], 'close:handle invalidated after closing', fwhere(f), 'every path that closes the descriptor leaves `_handle` negative',
              'Socket_::close() can return with the descriptor closed but the handle still set: the destructor (and explicit close + drop, as in SocketServer) closes the same number again, hitting a descriptor recycled for another connection')
    d = [g for g in prog.functions if g.get('kind') == 'dtor' and g.get('cls') == 'asl::Socket_' and g.get('body')]
    if d:
        ctx.analysed(d[0])
        ctx.check(any(e.get('k') == 'call' and e.get('pq') == 'asl::Socket_::close' for e in fn_exprs(d[0])), 'C14.close', d[0]['pq'], '~Socket_:closes through close()', fwhere(d[0]), 'destructor calls close()',
                  '~Socket_ does not release the descriptor through close()')


# ------------------------------------------------------------------ C14.sigpipe

def check_sigpipe(ctx, prog):
    """C14.sigpipe: a client that closes early must not be able to terminate the serving process.  Every system call in
    Socket.cpp that transmits on the stream handle (`send` / `write` whose first argument is the `_handle` member) must be a
    `send` whose flags contain MSG_NOSIGNAL (a plain write(2) / send without the flag raises SIGPIPE on a closed peer, which
    by default kills the process with every in-flight serve() and the pending stop(true)), unless SIGPIPE is ignored by a
    call of signal / sigaction with SIGPIPE in the same unit."""
    sites = []
    ignores = False
    MSG_NOSIGNAL = 0x4000
    for f in prog.functions:
        if not f.get('body') or not (f.get('file') or '').endswith('Socket.cpp'):
            continue
        for e in fn_exprs(f):
            if e.get('k') != 'call' or e.get('clsp') or e.get('obj') is not None:
                continue
            if e.get('fn') in ('signal', 'sigaction') and e.get('a') and const_val(e['a'][0]) == 13:
                ignores = True
            if e.get('fn') in ('send', 'write') and e.get('a'):
                h = strip(e['a'][0])
                while h.get('k') == 'cast':
                    h = strip(h['e'])
                if h.get('k') == 'mem' and h.get('f') == '_handle':
                    sites.append((f, e))
                elif h.get('k') == 'var' and not f.get('clsp') and any(p_.get('id') == h.get('id') for p_ in f.get('params') or []) and any(
                        w.get('k') == 'call' and w.get('fn') == f.get('q') and w.get('a') and any(x.get('k') == 'mem' and x.get('f') == '_handle' for x in walk_expr(w['a'][0]))
                        for g in prog.functions if g.get('body') and g.get('clsp') and (g.get('file') or '').endswith('Socket.cpp') for w in fn_exprs(g)):
                    sites.append((f, e))           # a helper of the unit that is handed the stream handle (sendSome(_handle, ...))
    n = 0
    for f, e in sites:
        n += 1
        ctx.analysed(f)
        role = '%s:transmits with MSG_NOSIGNAL' % f['n']
        flags = const_val(e['a'][3]) if e.get('fn') == 'send' and len(e['a']) > 3 else None
        ok = ignores or (e.get('fn') == 'send' and flags is not None and flags & MSG_NOSIGNAL)
        ctx.check(ok, 'C14.sigpipe', f['pq'], role, fwhere(f, e.get('l')), '`%s`' % pe(e)[:80],
                  '%s transmits on the socket with `%s` (no MSG_NOSIGNAL, SIGPIPE not ignored): when the client has closed early the second write raises SIGPIPE and terminates the whole server process - in-flight serve() calls never return and stop(true) never completes' % (f['q'], pe(e)[:80]))
    ctx.floor('C14.sigpipe', n, 1)



def check_nfds(ctx, prog):
    """C14.nfds: select() watches every listening descriptor.  The first argument of select() in Sockets::waitInput() must
    exceed every descriptor put into the set.  The loop that prepares the set is evaluated statement by statement (guards and
    assignments of its integer locals, `handle()` bound to the descriptor of the current socket) for a number of descriptor
    sequences - adjacent, descending, with gaps, a single one, descriptor 0 - and the argument expression is evaluated with
    the values the loop left."""
    import bounded, bytesets
    f = fn1(prog, 'asl::Sockets::waitInput')
    ctx.analysed(f)
    role = 'waitInput:select() is given a range that covers every descriptor in the set'
    sel = [e for e in fn_exprs(f) if e.get('k') == 'call' and e.get('fn') in ('select', '::select') and not e.get('clsp') and e.get('a')]
    if len(sel) != 1:
        ctx.undecided('C14.nfds', f['pq'], role, fwhere(f), '%d select() calls' % len(sel))
        return
    nf = sel[0]['a'][0]
    nvars = set(w['id'] for w in walk_expr(nf) if w.get('k') == 'var' and w.get('vk') == 'local')
    loops = [lp for lp in ir.walk_stmts(f['body']) if lp.get('k') in ('for', 'while') and lp.get('l', 0) < sel[0].get('l', 0) and
             any(w.get('k') == 'bin' and w.get('op', '').endswith('=') and w['op'] not in ('==', '!=', '<=', '>=') and strip_lv(w['x']).get('k') == 'var' and strip_lv(w['x']).get('id') in nvars for w in ir.stmt_exprs(lp['body']))]
    if len(loops) != 1 and nvars:
        ctx.undecided('C14.nfds', f['pq'], role, fwhere(f, sel[0]['l']), 'the loop that computes the range `%s` was not found' % pe(nf))
        return
    inits = dict((v['id'], v.get('init')) for s_ in ir.walk_stmts(f['body']) if s_.get('k') == 'decl' for v in s_['vars'])

    class Stop(Exception):
        pass

    def run_body(st, env, h):
        def bind(e):
            if e.get('k') == 'call' and (e.get('pq') or '').split('::')[-1] == 'handle' and not e.get('a'):
                return h
            return None
        ev = bounded.Bound(prog, f, dict(env), {}, bind=bind)
        k = st.get('k')
        if k == 'block':
            for x in st['s']:
                run_body(x, env, h)
        elif k == 'decl':
            for v in st['vars']:
                if v.get('init') is not None and (T(f, v['t']).get('int')):
                    env[v['id']] = bounded.Bound(prog, f, dict(env), {}, bind=bind).ev(v['init'])
        elif k == 'if':
            c = ev.ev(st['c'])
            if c:
                run_body(st['then'], env, h)
            elif st.get('else') is not None:
                run_body(st['else'], env, h)
        elif k == 'return':
            raise Stop()
        elif k == 'expr':
            for w in walk_expr(st['e']):
                if w.get('k') == 'bin' and w.get('op', '').endswith('=') and w['op'] not in ('==', '!=', '<=', '>=') and strip_lv(w['x']).get('k') == 'var' and T(f, strip_lv(w['x']).get('t')).get('int'):
                    vid = strip_lv(w['x'])['id']
                    rhs = bounded.Bound(prog, f, dict(env), {}, bind=bind).ev(w['y'])
                    if w['op'] == '=':
                        env[vid] = rhs
                    elif vid in env:
                        env[vid] = {'+=': env[vid] + rhs, '-=': env[vid] - rhs, '|=': env[vid] | rhs}.get(w['op'], rhs)
        elif k in ('for', 'while', 'do', 'switch'):
            raise bytesets.Undecidable('nested control flow in the preparing loop')
    bad = None
    runs = 0
    try:
        for seq in ([3], [0], [3, 4], [4, 3], [3, 5], [5, 3, 4], [7, 8, 9], [9, 8, 7], [4, 4], [1, 2, 3, 4, 5, 6]):
            env = {}
            for vid in nvars:
                if inits.get(vid) is not None:
                    env[vid] = bytesets.Evaluator(prog, f).ev(inits[vid])
            try:
                for h in seq:
                    if loops:
                        run_body(loops[0]['body'], env, h)
            except Stop:
                continue
            got = bounded.Bound(prog, f, dict(env), {}).ev(nf)
            runs += 1
            if got < max(seq) + 1:
                bad = (seq, got)
                break
    except (bytesets.Undecidable, KeyError, TypeError) as u:
        ctx.undecided('C14.nfds', f['pq'], role, fwhere(f, sel[0]['l']), 'the preparing loop is not evaluable: %s' % u)
        return
    ctx.evaluations += runs
    ctx.check(bad is None, 'C14.nfds', f['pq'], role, fwhere(f, sel[0]['l']), '`%s` > every descriptor for %d descriptor sequences' % (pe(nf), runs),
              'with the listening descriptors %s the first argument of select() is %s: descriptor %s lies outside the range select() watches, connections to that endpoint are never accepted' % (bad[0] if bad else '', bad[1] if bad else '', max(bad[0]) if bad else ''))
