"""C02 - Map / Dic / HashMap / HashDic / Set: structural clauses decided statically on every instantiated member.

 C02.unlink    HashMap::remove: on every path that deletes a chain node, the successor loaded before the delete is stored
               into the predecessor link (q->next or the bucket head) and the count is decremented
 C02.eq        operator== of the hash containers never compares two enumerations in lock-step (order dependent); each entry
               of one side is looked up in the other
 C02.geometry  every bucket-array size is 2^k + SKIP (initial literal, nextPoT, growth factor) and binOf()/rehash() use the
               same mask expression length - SKIP - 1
 C02.rehash    rehash() links every node taken from the old table into the new one before advancing, and restores the count
 C02.stale     no bucket index / chain pointer computed from the table is used after a call that may replace the table
 R-RC          reference-count protocol of the HashMap handle; relocation while shared (known finding)
 C02.map       Map: insertions happen at the position decoded from indexOf() in the same function (set / operator[] agree),
               remove() deletes exactly the found index; key comparators never subtract integers
 C02.set       Set never touches buckets, nodes or the count directly (algebra built from has / operator[] / enumeration)
Binary-search correctness of Map::indexOf and hash quality are not decided."""
import os
import ir, q, rc, alias, bytesets, cfg as cfgm
from ir import strip, strip_lv, const_val, T, pe, walk_expr, fn_exprs, AnalysisBroken
from core import fwhere

DRIVERS = ['inst_containers.cpp']


def run(ctx):
    units = [os.path.join(ir.VERIF, 'drivers', d) for d in DRIVERS + (['inst_containers_thorough.cpp'] if ctx.tier == 'thorough' else [])]
    lib = ir.library_units() if ctx.tier == 'thorough' else []
    prog = ir.load_units(units + lib, force_inst=units)
    ctx.use_program(prog)
    check_unlink(ctx, prog)
    check_chain_remove(ctx, prog)
    check_eq(ctx, prog)
    check_geometry(ctx, prog)
    check_rehash(ctx, prog)
    check_rehash_model(ctx, prog)
    check_stale(ctx, prog)
    k = rc.check_family(ctx, prog, 'HashMap')
    ctx.floor('R-RC HashMap special members', k, 9)
    rc.check_core_copies(ctx, prog, 'HashMap')
    nrel = rc.check_relocation(ctx, prog, 'HashMap')
    ctx.floor('R-RC.f HashMap relocators', nrel, 1)
    check_map(ctx, prog)
    check_map_alias(ctx, prog)
    check_set(ctx, prog)
    check_size_shortcuts(ctx, prog)
    check_dup(ctx, prog)
    check_table_owner(ctx, prog)
    check_string_order(ctx, prog)
    check_share(ctx, prog)
    check_enum_range(ctx, prog)
    # value-returning const members of the map / set classes build a new container (never hand out `*this` or an argument)
    import C01
    nf = C01.check_fresh(ctx, prog, classes=('asl::Set', 'asl::HashMap', 'asl::Map', 'asl::Dic', 'asl::HashDic'))
    ctx.floor('R-SHARE value-returning map/set members', nf, 3)
    ctx.info['set_role_selections'] = check_set_roles(ctx, prog)
    import eqrange
    ctx.floor('R-EQRANGE', eqrange.check(ctx, prog, 'R-EQRANGE', ('asl::Map::operator==',)), 1)
    import retself
    n = retself.check(ctx, prog, 'R-RETSELF', ('asl::Map', 'asl::Dic', 'asl::HashMap', 'asl::HashDic', 'asl::Set'))
    ctx.floor('R-RETSELF members', n, 2)
    return __doc__.split('\n\n', 1)[1]


def check_enum_range(ctx, prog):
    """C02.enum: the hash-map enumerator walks the bucket array to its end.  Every construction of the bucket enumerator
    (asl::Array<..>::Enumerator) inside HashMap code either takes the whole array or an explicit (begin, end) range whose end
    evaluates to the array length for every length (bounded evaluation)."""
    import bounded, bytesets
    n = 0
    for f in prog.functions:
        if not (f.get('clsp') or '').startswith('asl::HashMap') or not f.get('body'):
            continue
        cons = []
        for i_ in f.get('inits', []):
            cons += [w for w in walk_expr(i_.get('e')) if w.get('k') == 'construct' and 'asl::Array' in (w.get('cls') or '') and 'Enumerator' in (w.get('cls') or '')]
        cons += [w for w in fn_exprs(f) if w.get('k') == 'construct' and 'asl::Array' in (w.get('cls') or '') and 'Enumerator' in (w.get('cls') or '') and w not in cons]
        for c in cons:
            if c.get('copy') or c.get('trivial'):
                continue
            n += 1
            role = '%s%s:bucket enumerator covers the whole bucket array' % (f['n'], f['sig'])
            args = c.get('a', [])
            if len(args) <= 1:
                ctx.ok('C02.enum', f['pq'], role, fwhere(f, c.get('l')), 'enumerates the whole array')
                continue
            if len(args) != 3:
                ctx.undecided('C02.enum', f['pq'], role, fwhere(f, c.get('l')), 'bucket enumerator built from %d arguments' % len(args))
                continue
            lens = set(pe(w) for w in walk_expr(args[2]) if w.get('k') == 'call' and (w.get('pq') or '').endswith('::length'))
            if len(lens) != 1:
                ctx.undecided('C02.enum', f['pq'], role, fwhere(f, c.get('l')), 'end of the range `%s` does not mention one array length' % pe(args[2]))
                continue
            lt = list(lens)[0]
            bad = None
            try:
                for L in range(4, 40):
                    ev = bounded.Bound(prog, f, {}, {lt: L})
                    end = ev.ev(args[2])
                    ctx.evaluations += 1
                    if end != L and bad is None:
                        bad = (L, end)
            except bytesets.Undecidable as u:
                ctx.undecided('C02.enum', f['pq'], role, fwhere(f, c.get('l')), 'range end not evaluable: %s' % u)
                continue
            ctx.check(bad is None, 'C02.enum', f['pq'], role, fwhere(f, c.get('l')), 'range end `%s` = array length' % pe(args[2]),
                      'the bucket enumerator is built for the index range ending at `%s` = %s for a bucket array of %s slots: the last %s bucket(s) are never enumerated (keys there are stored and found but skipped by foreach / clone / == / set operations)'
                      % (pe(args[2]), bad[1] if bad else '', bad[0] if bad else '', (bad[0] - bad[1]) if bad else ''))
    ctx.floor('C02.enum bucket enumerators', n, 1)


def hm_members(prog, name):
    return [f for f in prog.functions if f.get('pq') == 'asl::HashMap::' + name and f.get('body') and not f.get('implicit')]


def is_link_lhs(e):
    """q->next or a[bin] (predecessor link of a chain)"""
    e = strip_lv(e)
    if e.get('k') == 'mem' and e.get('f') == 'next':
        return True
    if e.get('k') == 'call' and e.get('op') == '[]' and e.get('obj') is not None:
        o = strip(e['obj'])
        return (o.get('k') == 'mem' and o.get('f') == 'a') or (o.get('k') == 'var')
    if e.get('k') == 'idx':
        return True
    if e.get('k') == 'un' and e.get('op') == '*' and strip(e['e']).get('k') == 'var':
        return True          # *link with link = &bucket / &node->next (pointer-to-link form)
    return False


def check_unlink(ctx, prog):
    fs = hm_members(prog, 'remove')
    ctx.floor('C02.unlink', len(fs), 3)
    for f in fs:
        ctx.analysed(f)
        inst = f['q'] + f['sig']
        dels = [e for e in fn_exprs(f) if e.get('k') == 'delete']
        if len(dels) != 1 or strip(dels[0]['e']).get('k') != 'var':
            # a remove() with several deletion sites (head case split off, say): the path rule below is stated for a single one; the
            # behaviour - chain without the removed node, exactly that node deleted - is decided by interpretation in C02.chain
            ctx.ok('C02.unlink', f['pq'], 'remove:single node deletion', fwhere(f), '%d deletion sites: decided by C02.chain (interpretation on model chains)' % len(dels), nontrivial=False)
            continue
        pvar = strip(dels[0]['e'])['id']
        # successor variables: locals initialised / assigned from p->next
        succ = set()
        for s_ in ir.walk_stmts(f['body']):
            if s_.get('k') == 'decl':
                for v in s_['vars']:
                    ini = strip(v.get('init') or {})
                    if ini.get('k') == 'mem' and ini.get('f') == 'next' and strip(ini.get('b') or {}).get('id') == pvar:
                        succ.add(v['id'])
        cfg = cfgm.CFG(f)

        def step(nd, st):
            if nd.kind != 'ev' or nd.e is None:
                return st
            e = nd.e
            if e.get('k') == 'delete':
                return st | frozenset(['del'])
            if e.get('k') == 'bin' and e.get('op') == '=' and is_link_lhs(e['x']):
                r = strip(e['y'])
                if r.get('k') == 'var' and r.get('id') in succ:
                    return st | frozenset(['relinked'])
                if r.get('k') == 'mem' and r.get('f') == 'next' and strip(r.get('b') or {}).get('id') == pvar and 'del' not in st:
                    return st | frozenset(['relinked'])
            if e.get('k') in ('un', 'bin') and any(w.get('k') == 'call' and (w.get('pq') or '').endswith('::_n') for w in walk_expr(e)):
                if (e.get('k') == 'un' and e.get('op') in ('pre--', 'post--')) or (e.get('k') == 'bin' and e.get('op') == '-='):
                    return st | frozenset(['dec'])
            return st
        reached, parent = cfgm.dataflow(cfg, frozenset(), step)
        ctx.evaluations += sum(len(v) for v in reached.values())
        exits = reached.get(cfg.exit.id, set())
        bad_link = [st for st in exits if 'del' in st and 'relinked' not in st]
        bad_cnt = [st for st in exits if ('del' in st) != ('dec' in st)]
        w = cfgm.witness(cfg, parent, cfg.exit.id, bad_link[0]) if bad_link else None
        ctx.check(not bad_link, 'C02.unlink', f['pq'], 'remove:successor re-linked', fwhere(f, dels[0]['l']),
                  'the successor of the deleted node is stored into the predecessor link on every path',
                  'a path deletes a chain node without storing its successor into q->next or the bucket head: the rest of the chain is lost (%s)' % inst, w)
        ctx.check(not bad_cnt, 'C02.unlink', f['pq'], 'remove:count follows deletion', fwhere(f, dels[0]['l']),
                  'count decremented exactly on the deleting paths', 'the element count is not decremented exactly when a node is deleted (%s)' % inst)


def check_eq(ctx, prog):
    n = 0
    for cls in ('asl::HashMap', 'asl::Set'):
        for f in prog.functions:
            if f.get('pq') != cls + '::operator==' or not f.get('body') or len(f['params']) != 1:
                continue
            pt = T(f, T(f, f['params'][0]['t']).get('to'))
            if pt.get('recp') != cls:
                continue
            n += 1
            ctx.analysed(f)
            pid = f['params'][0]['id']
            enums_over_param = []
            for s_ in ir.walk_stmts(f['body']):
                if s_.get('k') == 'decl':
                    for v in s_['vars']:
                        tv = T(f, v['t'])
                        if 'Enumerator' in (tv.get('rec') or '') and v.get('init') is not None and any(w.get('k') == 'var' and w.get('id') == pid for w in walk_expr(v['init'])):
                            enums_over_param.append(v)
            lookups = [e for e in fn_exprs(f) if e.get('k') == 'call' and (e.get('pq') or '').split('::')[-1] in ('find', 'has', 'get', 'contains') and e.get('obj') is not None and
                       strip(e['obj']).get('id') == pid]
            lens = [e for e in fn_exprs(f) if e.get('k') == 'call' and (e.get('pq') or '').split('::')[-1] == 'length']
            inst = f['q'] + f['sig']
            ctx.check(not enums_over_param, 'C02.eq', f['pq'], 'operator==:no lock-step enumeration', fwhere(f),
                      'the argument is never enumerated in parallel with this container',
                      'operator== enumerates the argument (`%s`) alongside this container: equal contents inserted in a different order compare unequal (%s)' % (enums_over_param[0]['n'] if enums_over_param else '', inst))
            ctx.check(bool(lookups) and len(lens) >= 2, 'C02.eq', f['pq'], 'operator==:lookup in the other side', fwhere(f),
                      'lengths compared and every entry looked up in the argument', 'operator== does not compare both lengths and look every entry up in the argument (%s)' % inst)
    ctx.floor('C02.eq', n, 4)


def pot(v):
    return v is not None and v > 0 and (v & (v - 1)) == 0


def mask_shape(f, e):
    """e == (hash(..) & (X.length() - SKIP - 1)) + SKIP  -> (SKIP, description of X) or None"""
    e = strip(e)
    if e.get('k') != 'bin' or e.get('op') != '+':
        return None
    skip = const_val(e['y'])
    a = strip(e['x'])
    if skip is None or a.get('k') != 'bin' or a.get('op') != '&':
        return None
    h, m = strip(a['x']), strip(a['y'])
    if not (h.get('k') == 'call' and (h.get('pq') or '').split('::')[-1] == 'hash'):
        h, m = m, h
    if not (h.get('k') == 'call' and (h.get('pq') or '').split('::')[-1] == 'hash'):
        return None
    if m.get('k') != 'bin' or m.get('op') != '-' or const_val(m['y']) != 1:
        return None
    m2 = strip(m['x'])
    if m2.get('k') != 'bin' or m2.get('op') != '-' or const_val(m2['y']) != skip:
        return None
    ln = strip(m2['x'])
    if ln.get('k') == 'call' and (ln.get('pq') or '').split('::')[-1] == 'length':
        return skip, pe(strip(ln['obj']))
    return None


def check_geometry(ctx, prog):
    n = 0
    skip = None
    HGRID = (0, 1, 5, 255, 256, 4097, 65535, 65536, 0x12345678, 0x7fffffff, -1, -65537, -0x80000000)
    binof_eval = {}

    def bucket_fn(f, expr, len_pred):
        """expr as a function (hash value, table length) -> bucket, by evaluation with the hash() call and the length() call
        of the table bound"""
        def fn_(h, L):
            class Ev(bytesets.Evaluator):
                def ev(self, e):
                    if e is not None and e.get('k') == 'call':
                        if (e.get('pq') or '').split('::')[-1] == 'hash':
                            return h
                        if (e.get('pq') or '') == 'asl::Array::length' and e.get('obj') is not None:
                            r_ = len_pred(strip(e['obj']))
                            if r_ is True:
                                return L
                            if r_ is not None and r_ is not False:
                                return r_(L) if callable(r_) else r_
                    return bytesets.Evaluator.ev(self, e)

                def sub_evaluator(self, g, env, arrays):
                    sub = Ev(self.prog, g, env, arrays, self.depth + 1)
                    return sub
            return Ev(prog, f).ev(expr)
        return fn_
    for f in hm_members(prog, 'binOf'):
        n += 1
        ctx.analysed(f)
        rets = [s_ for s_ in ir.walk_stmts(f['body']) if s_.get('k') == 'return']
        role = 'binOf:mask'
        if len(rets) != 1:
            ctx.undecided('C02.geometry', f['pq'], role, fwhere(f), 'binOf() has %d return statements' % len(rets))
            continue
        fn_ = bucket_fn(f, q.expand(f, rets[0]['e']), lambda o: o.get('k') == 'mem' and o.get('f') == 'a')
        try:
            sk = fn_(0, 1000)
            bad = None
            for k in range(2, 12):
                L = (1 << k) + sk
                hit = set()
                for h in HGRID + tuple(range(0, 1 << min(k, 6))):
                    r_ = fn_(h, L)
                    ctx.evaluations += 1
                    if not sk <= r_ < L:
                        bad = 'for a table of %d entries the key with hash %d goes to bucket %d, outside [%d, %d)' % (L, h, r_, sk, L)
                    hit.add(r_)
                if bad is None and k <= 6 and len(hit) < (1 << k):
                    bad = 'for a table of %d entries only %d of the %d buckets are ever used' % (L, len(hit), 1 << k)
            ctx.check(bad is None, 'C02.geometry', f['pq'], role, fwhere(f), 'every hash value lands in [SKIP, length), all buckets reachable (SKIP = %d)' % sk, 'binOf(): %s (%s)' % (bad, f['q']))
            skip = sk
            binof_eval[f['q'].rsplit('::', 1)[0]] = fn_
        except bytesets.Undecidable as ex:
            ctx.undecided('C02.geometry', f['pq'], role, fwhere(f), 'bucket expression not evaluable: %s' % ex)
    if skip is None:
        raise AnalysisBroken('cannot determine ASL_HMAP_SKIP from binOf()')
    ctx.info['ASL_HMAP_SKIP'] = skip
    # constructors
    for f in prog.functions:
        if f.get('clsp') != 'asl::HashMap' or f.get('kind') != 'ctor' or f.get('implicit') or f.get('copyctor'):
            continue
        n += 1
        ctx.analysed(f)
        sizes = []
        for i in f.get('inits', []):
            if i.get('field') == 'a' and i.get('written'):
                e = strip(i['e'])
                if e.get('k') == 'construct' and e.get('a'):
                    sizes.append(e['a'][0])
        for e in fn_exprs(f):
            if e.get('k') == 'call' and (e.get('pq') or '') in ('asl::Array::resize',) and e.get('obj') is not None and strip(e['obj']).get('f') == 'a':
                sizes.append(e['a'][0])
        role = 'ctor' + f['sig'] + ':table size'
        if not sizes:
            ctx.undecided('C02.geometry', f['pq'], role, fwhere(f), 'constructor does not size the bucket array')
            continue
        for sz in sizes:
            v = const_val(sz)
            if v is not None:
                ctx.check(pot(v - skip), 'C02.geometry', f['pq'], role, fwhere(f), 'initial size %d = 2^k + %d' % (v, skip),
                          'initial bucket-array size %d - SKIP(%d) = %d is not a power of two: the mask in binOf() cannot reach every bucket / collides keys' % (v, skip, v - skip))
            else:
                # evaluated for a range of requested sizes: (size - SKIP) must be a power of two that holds the request
                badn = None
                try:
                    for nreq in (0, 1, 2, 3, 5, 8, 9, 100, 255, 256, 257, 1000, 4096, 70000):
                        env = dict((p_['id'], nreq) for p_ in f['params'] if T(f, p_['t']).get('int'))
                        got = bytesets.Evaluator(prog, f, env).ev(q.expand(f, sz))
                        ctx.evaluations += 1
                        if not pot(got - skip) or got - skip < 1:
                            badn = (nreq, got)
                            break
                    ctx.check(badn is None, 'C02.geometry', f['pq'], role, fwhere(f), 'size - SKIP is a power of two for every requested size of the grid',
                              'for a requested size of %s the bucket array gets %s entries: %s - SKIP(%d) is not a power of two, the mask in binOf() cannot reach every bucket / collides keys' % (
                                  badn[0] if badn else '', badn[1] if badn else '', badn[1] if badn else '', skip))
                except bytesets.Undecidable as ex:
                    ctx.undecided('C02.geometry', f['pq'], role, fwhere(f), 'bucket-array size `%s` not evaluable: %s' % (pe(sz), ex))
            ctx.evaluations += 1
    # nextPoT: n--, smear with shifts 1,2,4,8,16, return n + 1
    for f in prog.fn('asl::nextPoT'):
        n += 1
        ctx.analysed(f)
        # interpreted (scansim) for arguments around every power of two up to 2^30: the smallest power of two >= n
        import scansim
        badp = None
        try:
            args = set([1, 2, 3, 5, 100, 1000, 70000])
            for k in range(1, 31):
                args |= {(1 << k) - 1, 1 << k, (1 << k) + 1}
            for a_ in sorted(x for x in args if 1 <= x <= (1 << 30)):
                r = scansim.Run(prog, f, {}, int_params={f['params'][0]['id']: a_})
                got = r.run()
                want = 1 << (a_ - 1).bit_length()
                ctx.evaluations += 1
                if got != want:
                    badp = (a_, got, want)
                    break
            ctx.check(badp is None, 'C02.geometry', f['pq'], 'nextPoT:bit smearing', fwhere(f), 'interpreted for %d arguments around every power of two: smallest power of two >= n' % len(args),
                      'nextPoT(%s) is %s, the smallest power of two not below it is %s' % (badp if badp else (0, 0, 0)))
        except (scansim.Unsupported, scansim.OOB, TypeError) as ex:
            ctx.undecided('C02.geometry', f['pq'], 'nextPoT:bit smearing', fwhere(f), 'outside the interpreted fragment: %s' % ex)
    # rehash growth factor and mask: evaluated for several old table lengths L (a.length() bound to L, the new table's
    # length() bound to the evaluated size), so hoisted locals and equivalent arithmetic forms are read through
    for f in hm_members(prog, 'rehash'):
        n += 1
        ctx.analysed(f)
        inst = f['q']
        newtab = None
        for s_ in ir.walk_stmts(f['body']):
            if s_.get('k') == 'decl':
                for v in s_['vars']:
                    tv = T(f, v['t'])
                    ini = strip(v.get('init') or {})
                    if tv.get('recp') == 'asl::Array' and ini.get('k') == 'construct' and ini.get('a'):
                        newtab = (v, ini['a'][0])
        if not newtab:
            ctx.undecided('C02.geometry', f['pq'], 'rehash:growth', fwhere(f), 'no new bucket array constructed')
            continue
        tv_, size_e = newtab

        def make_ev(L, newlen=None):
            class Ev(bytesets.Evaluator):
                def ev(self, e):
                    if e is not None and e.get('k') == 'call' and (e.get('pq') or '') == 'asl::Array::length' and e.get('obj') is not None:
                        o = strip(e['obj'])
                        if o.get('k') == 'mem' and o.get('f') == 'a':
                            return L
                        if o.get('k') == 'var' and o.get('id') == tv_['id'] and newlen is not None:
                            return newlen
                    return bytesets.Evaluator.ev(self, e)
            return Ev(prog, f)
        # the bucket expression used to place nodes: index of the new table that contains a hash() call
        idxs = []
        for e in fn_exprs(f):
            if e.get('k') == 'call' and e.get('op') == '[]' and e.get('obj') is not None and strip(e['obj']).get('id') == tv_['id'] and any(w.get('k') == 'call' and (w.get('pq') or '').split('::')[-1] == 'hash' for w in walk_expr(q.expand(f, e['a'][0]))):
                idxs.append(q.expand(f, e['a'][0]))
        try:
            sizes = {}
            for L in (skip + 4, skip + 256, skip + 2048):
                sizes[L] = make_ev(L).ev(size_e)
                ctx.evaluations += 1
            ratios = set((sizes[L] - skip) / float(L - skip) for L in sizes)
            factor = list(ratios)[0] if len(ratios) == 1 else None
            okg = factor is not None and factor == int(factor) and pot(int(factor)) and factor > 1
            ctx.check(okg, 'C02.geometry', f['pq'], 'rehash:growth', fwhere(f, tv_['l']), 'new size = (length - SKIP) * %s + SKIP' % (int(factor) if factor else '?'),
                      'rehash() grows a table of 256 buckets to %s buckets: not (length - SKIP) * 2^k + SKIP, so the new size is not a power of two and the mask loses buckets (%s)' % (sizes[skip + 256] - skip, inst))
            okm = bool(idxs)
            why = 'no bucket expression with hash() indexes the new table'
            bfn = binof_eval.get(f['q'].rsplit('::', 1)[0]) or (list(binof_eval.values())[0] if binof_eval else None)
            if bfn is None:
                okm, why = False, 'binOf() was not evaluable'
            for ix in idxs:
                for L in sizes:
                    # new table: its evaluated size; the old table (member a): the length it is grown from
                    rfn = bucket_fn(f, ix, lambda o, L=L: True if (o.get('k') == 'var' and o.get('id') == tv_['id']) else (L if (o.get('k') == 'mem' and o.get('f') == 'a') else None))
                    for h in HGRID:
                        got, want = rfn(h, sizes[L]), bfn(h, sizes[L])
                        ctx.evaluations += 1
                        if got != want and okm:
                            okm, why = False, 'growing a table of %d entries to %d, a key with hash value %d is moved to bucket %d while binOf() looks for it in bucket %d' % (L, sizes[L], h, got, want)
            ctx.check(okm, 'C02.geometry', f['pq'], 'rehash:mask agrees with binOf', fwhere(f), 'the bucket expression of rehash() and binOf() agree for every (hash, new length) of the grid',
                      'rehash() places nodes in buckets that binOf() will not look in: %s (%s)' % (why, inst))
        except bytesets.Undecidable as ex:
            ctx.undecided('C02.geometry', f['pq'], 'rehash:growth/mask', fwhere(f), 'size or mask expression not evaluable: %s' % ex)
    ctx.floor('C02.geometry', n, 12)


def check_rehash(ctx, prog):
    fs = hm_members(prog, 'rehash')
    ctx.floor('C02.rehash', len(fs), 3)
    for f in fs:
        inst = f['q']
        cfg = cfgm.CFG(f)
        problems = []

        def is_next_of(e, vid=None):
            e = strip(e)
            return e.get('k') == 'mem' and e.get('f') == 'next' and strip(e.get('b') or {}).get('k') == 'var'

        # the node cursor: variable p such that some assignment `succ = p->next` and later `p = succ`
        succ_of = {}
        for e in fn_exprs(f):
            if e.get('k') == 'bin' and e.get('op') == '=' and strip_lv(e['x']).get('k') == 'var' and is_next_of(e['y']):
                succ_of[strip_lv(e['x'])['id']] = strip(strip(e['y'])['b'])['id']
        for s_ in ir.walk_stmts(f['body']):
            if s_.get('k') == 'decl':
                for v in s_['vars']:
                    if v.get('init') is not None and is_next_of(v['init']):
                        succ_of[v['id']] = strip(strip(v['init'])['b'])['id']       # T* const next = p->next;

        def step(nd, st):
            if nd.kind == 'decl' and isinstance(nd.info, dict) and nd.info.get('id') in succ_of and nd.info.get('init') is not None and is_next_of(nd.info['init']):
                return 'pending:%d' % succ_of[nd.info['id']]
            if nd.kind != 'ev' or nd.e is None:
                return st
            e = nd.e
            if e.get('k') == 'bin' and e.get('op') == '=':
                lhs, rhs = strip_lv(e['x']), strip(e['y'])
                if lhs.get('k') == 'var' and lhs.get('id') in succ_of and is_next_of(e['y']) and strip(rhs['b'])['id'] == succ_of[lhs['id']]:
                    return 'pending:%d' % succ_of[lhs['id']]
                if st.startswith('pending') and rhs.get('k') == 'var' and rhs.get('id') == int(st.split(':')[1]) and is_link_lhs(e['x']):
                    return 'linked'
                if st.startswith('pending') and lhs.get('k') == 'var' and lhs.get('id') == int(st.split(':')[1]) and rhs.get('k') == 'var' and rhs.get('id') in succ_of:
                    problems.append(e.get('l', 0))
            if e.get('k') == 'call' and st.startswith('pending') and e.get('fn'):
                # linking delegated to a helper: the pending node is passed to a function that stores that parameter into a link
                pend = int(st.split(':')[1])
                for j, a in enumerate(e.get('a', [])):
                    if strip(a).get('k') == 'var' and strip(a).get('id') == pend:
                        for g in prog.fn(e['fn'], e.get('sig')):
                            if g.get('body') and j < len(g['params']):
                                pid = g['params'][j]['id']
                                if any(x.get('k') == 'bin' and x.get('op') == '=' and is_link_lhs(x['x']) and strip(x['y']).get('k') == 'var' and strip(x['y']).get('id') == pid for x in fn_exprs(g)):
                                    return 'linked'
            return st
        reached, _ = cfgm.dataflow(cfg, 'start', step)
        ctx.evaluations += sum(len(v) for v in reached.values())
        # only the node loop that feeds the NEW table matters: require at least one 'linked' state to exist
        linked_seen = any('linked' in v for v in reached.values())
        ctx.check(linked_seen and not problems, 'C02.rehash', f['pq'], 'rehash:every node re-linked', fwhere(f, problems[0] if problems else None),
                  'each node taken from the old table is linked into the new one before the cursor advances',
                  'rehash() advances past a node without linking it into the new table on some path: entries are lost on growth (%s)' % inst)
        # count restored
        saved = set()
        for s_ in ir.walk_stmts(f['body']):
            if s_.get('k') == 'decl':
                for v in s_['vars']:
                    ini = strip(v.get('init') or {})
                    if ini.get('k') == 'call' and (ini.get('pq') or '').endswith('::_n'):
                        saved.add(v['id'])
        restores = [e for e in fn_exprs(f) if e.get('k') == 'bin' and e.get('op') == '=' and strip_lv(e['x']).get('k') == 'call' and (strip_lv(e['x']).get('pq') or '').endswith('::_n')
                    and strip(e['y']).get('k') == 'var' and strip(e['y']).get('id') in saved]
        ctx.check(bool(restores), 'C02.rehash', f['pq'], 'rehash:count restored', fwhere(f), 'element count saved before and restored after the table swap',
                  'rehash() does not restore the element count saved before the table swap (%s)' % inst)


def check_stale(ctx, prog):
    """Values derived from the table (bucket index from binOf, chain pointers from a[..]) are stale after a table replacement."""
    inv = {'asl::HashMap::rehash', 'asl::HashMap::clear', 'asl::HashMap::dup', 'asl::HashMap::operator='}
    n = 0
    for f in prog.functions:
        if f.get('clsp') != 'asl::HashMap' or not f.get('body') or f.get('implicit') or f['pq'] in inv:
            continue
        calls_inv = [e for e in fn_exprs(f) if e.get('k') == 'call' and e.get('pq') in inv and alias.is_this_obj(e)]
        if not calls_inv:
            continue
        n += 1
        ctx.analysed(f)
        cfg = cfgm.CFG(f)
        hits = []

        def derived_init(e, derived):
            for w in walk_expr(e):
                if w.get('k') == 'call' and (w.get('pq') or '').endswith('::binOf'):
                    return True
                if w.get('k') == 'call' and w.get('op') == '[]' and w.get('obj') is not None and strip(w['obj']).get('f') == 'a':
                    return True
                if w.get('k') == 'var' and w.get('id') in derived:
                    return True
            return False

        def step(nd, st):
            derived, stale = st
            if nd.kind == 'decl':
                v = nd.info
                if v.get('init') is not None and derived_init(v['init'], derived):
                    return (derived | frozenset([v['id']]), stale - frozenset([v['id']]))
                return st
            if nd.kind != 'ev' or nd.e is None:
                return st
            e = nd.e
            if e.get('k') == 'call' and e.get('pq') in inv and alias.is_this_obj(e):
                return (derived, stale | derived)
            if e.get('k') == 'bin' and e.get('op') == '=' and strip_lv(e['x']).get('k') == 'var':
                vid = strip_lv(e['x'])['id']
                if derived_init(e['y'], derived - stale):
                    return (derived | frozenset([vid]), stale - frozenset([vid]))
            if e.get('k') == 'var' and e.get('id') in stale:
                hits.append((e.get('l', 0), e.get('n')))
            return st
        reached, _ = cfgm.dataflow(cfg, (frozenset(), frozenset()), step)
        ctx.evaluations += sum(len(v) for v in reached.values())
        role = f['n'] + ':table-derived values across table replacement'
        if hits:
            ctx.violation('C02.stale', f['pq'], role, fwhere(f, hits[0][0]),
                          '`%s` was computed from the bucket array before a call that may replace it (rehash/clear/dup) and is used afterwards: the entry goes to the wrong bucket or chain (%s%s)' % (hits[0][1], f['q'], f['sig']))
        else:
            ctx.ok('C02.stale', f['pq'], role, fwhere(f), 'bucket index and chain pointers are computed after the table may have been replaced')
    ctx.floor('C02.stale', n, 3)


def check_map(ctx, prog):
    n = 0
    for name in ('set', 'operator[]'):
        for f in prog.functions:
            if f.get('pq') != 'asl::Map::' + name or not f.get('body') or f.get('const') or f.get('implicit'):
                continue
            ins = [e for e in fn_exprs(f) if e.get('k') == 'call' and e.get('pq') == 'asl::Array::insert']
            if not ins:
                continue
            n += 1
            ctx.analysed(f)
            inst = f['q'] + f['sig']
            idx_vars = set()
            for s_ in ir.walk_stmts(f['body']):
                if s_.get('k') == 'decl':
                    for v in s_['vars']:
                        ini = strip(v.get('init') or {})
                        if ini.get('k') == 'call' and ini.get('pq') == 'asl::Map::indexOf':
                            idx_vars.add(v['id'])
            g = q.Guarded(f)
            okk = True
            why = ''
            for e in ins:
                pos = strip(q.expand(f, e['a'][0]))
                # -i-1
                def is_index(x):
                    x = strip(x)
                    return (x.get('k') == 'var' and x.get('id') in idx_vars) or (x.get('k') == 'call' and x.get('pq') == 'asl::Map::indexOf')
                dec = pos.get('k') == 'bin' and pos.get('op') == '-' and const_val(pos['y']) == 1 and strip(pos['x']).get('k') == 'un' and strip(pos['x']).get('op') == '-' and \
                    is_index(strip(pos['x'])['e'])
                def absent_guard(c, pol):
                    cc = strip(c)
                    if cc.get('k') != 'bin' or const_val(cc['y']) != 0 or strip(cc['x']).get('id') not in idx_vars:
                        return False
                    return (cc.get('op') == '>=' and pol is False) or (cc.get('op') == '<' and pol is True)
                if not dec:
                    # any spelling of the decoded position: evaluates to -i-1 for every negative i
                    import bounded, bytesets
                    try:
                        by_id, by_text = bounded.atoms_of(prog, f, e['a'][0])
                        src_ids = [i_ for i_ in by_id if i_ in idx_vars]
                        src_txt = [t_ for t_, n_ in by_text.items() if isinstance(n_, dict) and n_.get('pq') == 'asl::Map::indexOf']
                        if len(src_ids) + len(src_txt) == 1 and len(by_id) + len(by_text) == 1:
                            dec = all(bounded.Bound(prog, f, dict((i_, iv) for i_ in src_ids), dict((t_, iv) for t_ in src_txt)).ev(e['a'][0]) == -iv - 1 for iv in (-1, -2, -3, -7))
                    except bytesets.Undecidable:
                        pass
                if not dec and pos.get('k') == 'var' and pos.get('id') in idx_vars:
                    # `i = -i-1; a.insert(i, ..)`: the index variable itself was turned into the insert position just before
                    order_ = dict((id(x), k_) for k_, x in enumerate(g.order))
                    re_ = [w_ for w_ in q._writes_to(f, pos['id']) if order_.get(id(w_), 10 ** 9) < order_.get(id(e), -1)]
                    if len(re_) == 1 and re_[0].get('k') == 'bin' and re_[0].get('op') == '=':
                        import C01
                        lf = C01.linear(f, re_[0]['y'], None)
                        if lf == {pos['id']: -1, 1: -1} and g.of(re_[0]) == g.of(e)[:len(g.of(re_[0]))]:
                            dec = True
                guarded = any(kind in ('if', 'after') and absent_guard(c, pol) for c, pol, kind in g.of(e))
                if not dec:
                    okk, why = False, 'insert position `%s` is not -i-1 with i = indexOf(key)' % pe(pos)
                elif not guarded:
                    okk, why = False, 'insert is not confined to the not-found case (i >= 0 false)'
            ctx.check(okk, 'C02.map', f['pq'], name + ':insert at decoded position', fwhere(f), 'inserts at -i-1 only when indexOf() reported absence', why + ' (%s)' % inst)
            ctx.evaluations += 1
    # the key array stays sorted: no Map member appends to it or inserts at a position that did not come from indexOf()
    for f in prog.functions:
        if f.get('clsp') != 'asl::Map' or not f.get('body') or f.get('implicit'):
            continue
        apps = [e for e in fn_exprs(f) if e.get('k') == 'call' and e.get('clsp') == 'asl::Array' and e.get('obj') is not None and strip_lv(e['obj']).get('f') == 'a' and
                strip_lv(strip_lv(e['obj']).get('b') or {'k': 'this'}).get('k') == 'this' and ((e.get('pq') or '').split('::')[-1] in ('operator<<', 'append', 'operator,', 'push', 'put'))]
        if apps:
            ctx.analysed(f)
            ctx.violation('C02.map', f['pq'], f['n'] + f['sig'] + ':entries enter the sorted array through the key search', fwhere(f, apps[0]['l']),
                          '%s appends an entry to the key array (`%s`) instead of inserting it at the position indexOf() gives: if the keys do not arrive in ascending order (a converting copy can reorder or merge keys) the binary search no longer finds them (%s)' % (f['pq'], pe(apps[0]), f['q']))
    for f in prog.functions:
        if f.get('pq') != 'asl::Map::remove' or not f.get('body'):
            continue
        n += 1
        ctx.analysed(f)
        rem = [e for e in fn_exprs(f) if e.get('k') == 'call' and e.get('pq') == 'asl::Array::remove']
        g = q.Guarded(f)
        okk = False
        if len(rem) == 1 and strip(rem[0]['a'][0]).get('k') == 'var':
            import bounded
            iv_ = strip(rem[0]['a'][0])['id']
            runs = dict((v_, bounded.admitted3(bounded.Bound(prog, f, {iv_: v_}, {}), g.of(rem[0]), g, relevant=lambda c: any(w.get('k') == 'var' and w.get('id') == iv_ for w in walk_expr(q.expand(f, c, bools_only=True))))) for v_ in (-3, -1, 0, 1, 4))
            okk = all((r is True) == (v_ >= 0) for v_, r in runs.items()) and None not in runs.values()
        ctx.check(okk, 'C02.map', f['pq'], 'remove:deletes the found index', fwhere(f), 'removes index i only when i >= 0', 'Map::remove does not delete exactly the index found by indexOf (%s)' % f['q'])
    ctx.floor('C02.map', n, 6)
    # comparators
    m = 0
    for f in prog.functions:
        if f.get('n') != 'compare' or not f.get('body') or not (f.get('pq') or '').startswith('asl::'):
            continue
        if f.get('clsp'):
            continue
        m += 1
        ctx.analysed(f)
        bad = []
        for s_ in ir.walk_stmts(f['body']):
            if s_.get('k') == 'return' and s_.get('e') is not None:
                for w in walk_expr(s_['e']):
                    if w.get('k') == 'bin' and w.get('op') == '-':
                        tx, ty = T(f, strip_lv(w['x']).get('t')), T(f, strip_lv(w['y']).get('t'))
                        if tx.get('int') and ty.get('int') and (tx.get('bits', 0) >= 32 or ty.get('bits', 0) >= 32):
                            bad.append(pe(w))
        ctx.check(not bad, 'C02.map', f['pq'], 'compare' + f['sig'] + ':no integer subtraction', fwhere(f), 'three-way result from comparisons, not from a difference',
                  'key comparator returns the integer difference `%s`: it overflows for keys more than 2^31 apart and the binary search then mis-orders and loses keys' % (bad[0] if bad else ''))
    ctx.floor('C02.map comparators', m, 3)


def check_set_roles(ctx, prog):
    """C02.setpair: a binary set operation that picks its operands by size (`scan` the smaller set, `probe` the larger one) must
    give the two roles to two different sets for every pair of sizes: with selections that disagree on the tie (`<` in one,
    `<=` in the other) two sets of equal size are scanned *and* probed as the same set, and `a & b` returns all of a.  Every
    pair of reference locals initialised with `cond ? s : *this` is evaluated on the grid of sizes 0..3 x 0..3."""
    n = 0
    seen = set()
    for f in prog.functions:
        if f.get('clsp') != 'asl::Set' or not f.get('body') or f.get('implicit') or len(f['params']) != 1:
            continue
        pt = T(f, f['params'][0]['t'])
        if not pt.get('ref') or T(f, pt.get('to')).get('rec') != f.get('cls'):
            continue
        key = (f.get('file'), f.get('line'))
        if key in seen:
            continue
        pid = f['params'][0]['id']

        def which(e):
            e = strip(e)
            while e.get('k') in ('paren', 'cast'):
                e = strip(e['e'])
            if e.get('k') == 'var' and e.get('id') == pid:
                return 'arg'
            if e.get('k') == 'un' and e.get('op') == '*' and strip(e['e']).get('k') == 'this':
                return 'this'
            return None
        sel = []
        for s_ in ir.walk_stmts(f['body']):
            if s_.get('k') != 'decl':
                continue
            for v in s_['vars']:
                ini = strip(v.get('init') or {})
                while ini.get('k') in ('paren', 'cast'):
                    ini = strip(ini['e'])
                if ini.get('k') == 'cond' and {which(ini['x']), which(ini['y'])} == {'arg', 'this'}:
                    sel.append((v, ini))
        if len(sel) < 2:
            continue
        seen.add(key)
        n += 1
        ctx.analysed(f)

        def ev(e, la, lb):
            e = strip(e)
            k = e.get('k')
            if k in ('paren', 'cast'):
                return ev(e['e'], la, lb)
            if k == 'int':
                return e['v']
            if k == 'call' and (e.get('pq') or '').split('::')[-1] in ('length', 'size', 'count') and not e.get('a'):
                o = e.get('obj')
                return lb if o is not None and which(o) == 'arg' else la
            if k == 'bin' and e.get('op') in ('<', '>', '<=', '>=', '==', '!='):
                x, y = ev(e['x'], la, lb), ev(e['y'], la, lb)
                return {'<': x < y, '>': x > y, '<=': x <= y, '>=': x >= y, '==': x == y, '!=': x != y}[e['op']]
            if k == 'un' and e.get('op') == '!':
                return not ev(e['e'], la, lb)
            raise ValueError(pe(e))
        bad = None
        try:
            for la in range(4):
                for lb in range(4):
                    picks = [(v['n'], which(c['x']) if ev(c['c'], la, lb) else which(c['y'])) for v, c in sel]
                    if len(set(p_ for _, p_ in picks)) < 2:
                        bad = (la, lb, picks)
                        break
                if bad:
                    break
        except (ValueError, KeyError, TypeError) as u:
            ctx.info.setdefault('setpair_not_evaluated', []).append('%s: %s' % (f['q'], u))
            continue
        ctx.evaluations += 16
        role = '%s%s:the two operand roles go to two different sets' % (f['n'], f.get('sig') or '')
        ctx.check(bad is None, 'C02.setpair', f['pq'], role, fwhere(f), 'selections evaluated for sizes 0..3 x 0..3: always one role each',
                  '%s: for |this| = %d and |argument| = %d the locals %s all designate %s: the set is combined with itself (an intersection of two different sets of equal size returns the whole first set)' % (
                      f['pq'], bad[0] if bad else 0, bad[1] if bad else 0, ', '.join('`%s`' % p_[0] for p_ in (bad[2] if bad else [])), 'the argument' if bad and bad[2][0][1] == 'arg' else '*this'))
    return n


def check_set(ctx, prog):
    n = 0
    for f in prog.functions:
        if f.get('clsp') != 'asl::Set' or not f.get('body') or f.get('implicit'):
            continue
        if 'Enumerator' in f.get('cls', ''):
            continue
        n += 1
        ctx.analysed(f)
        bad = [e for e in fn_exprs(f) if (e.get('k') == 'mem' and e.get('f') in ('a', 'next') and (e.get('fq') or '').startswith('asl::HashMap')) or
               (e.get('k') == 'call' and (e.get('pq') or '') in ('asl::HashMap::_n', 'asl::HashMap::_rc', 'asl::HashMap::binOf'))]
        ctx.check(not bad, 'C02.set', f['pq'], f['n'] + f['sig'] + ':thin', fwhere(f), 'built from has / operator[] / remove / enumeration only',
                  'Set member touches buckets, nodes or the count directly: %s' % [pe(b) for b in bad[:3]])
    ctx.floor('C02.set', n, 30)


SIZE_FORCED = {
    # predicate: (sizes for which `false` is forced, sizes for which `true` is forced); la = |this|, lb = |argument|
    'contains': (lambda la, lb: lb > la, lambda la, lb: lb == 0),
    'operator==': (lambda la, lb: la != lb, lambda la, lb: la == 0 and lb == 0),
    'operator!=': (lambda la, lb: la == 0 and lb == 0, lambda la, lb: la != lb),
    'containsAny': (lambda la, lb: la == 0 or lb == 0, lambda la, lb: False),
}


def check_size_shortcuts(ctx, prog):
    """C02.sizecut: a set predicate may answer from the two sizes alone only where the sizes force the answer.  For every
    `return <constant>` of Set::contains(Set) / operator== / operator!= / containsAny whose guards speak about nothing but
    length() of the two sets, the guards are evaluated on a grid of (|this|, |argument|): `false` must be confined to sizes
    for which no pair of sets gives true (|s| > |this| for containment, different sizes for equality), and likewise `true`.
    A shortcut that also fires for equal sizes makes containment non-reflexive."""
    import bounded, bytesets
    n = 0
    seen = set()
    for f in prog.functions:
        if f.get('clsp') != 'asl::Set' or not f.get('body') or f['n'] not in SIZE_FORCED or len(f['params']) != 1:
            continue
        pt = T(f, T(f, f['params'][0]['t']).get('to') or f['params'][0]['t'])
        if pt.get('recp') != 'asl::Set':
            continue
        role0 = '%s(const Set &)' % f['n']
        if role0 in seen:
            continue
        seen.add(role0)
        ctx.analysed(f)
        g = q.Guarded(f)
        pid = f['params'][0]['id']
        rets = [s_ for s_ in ir.walk_stmts(f['body']) if s_.get('k') == 'return' and s_.get('e') is not None and const_val(s_['e']) is not None]
        for rt in rets:
            val = bool(const_val(rt['e']))
            lits = [w for w in walk_expr(rt['e'])]
            guards = None
            for w in lits:
                if g.of(w):
                    guards = g.of(w)
                    break
            if not guards:
                continue
            split = []
            for c, pol, kind in guards:
                if isinstance(c, dict) and kind != 'case' and pol and strip(c).get('k') == 'bin' and strip(c).get('op') == '&&':
                    def conj(c_):
                        c_ = strip(c_)
                        return conj(c_['x']) + conj(c_['y']) if c_.get('k') == 'bin' and c_.get('op') == '&&' else [c_]
                    split += [(ci, True, kind) for ci in conj(c)]
                else:
                    split.append((c, pol, kind))
            by_text = {}
            keep = []
            only_sizes = True
            try:
                for gd in split:
                    c, pol, kind = gd
                    if not isinstance(c, dict) or kind == 'case':
                        only_sizes = False
                        continue
                    bi, bt = bounded.atoms_of(prog, f, c)
                    if bi or not bt or not all(bt[t].get('k') == 'call' and (bt[t].get('pq') or bt[t].get('fn') or '').split('::')[-1] == 'length' for t in bt):
                        only_sizes = False
                        continue
                    by_text.update(bt)
                    keep.append(gd)
            except bytesets.Undecidable:
                continue
            if not keep or not only_sizes or len(by_text) > 2 or not any(pol for _, pol, _k in keep):
                continue                    # the answer depends on the members looked up (or is the fall-through after them): not a size shortcut
            arg = [t for t in by_text if any(w.get('k') == 'var' and w.get('id') == pid for w in walk_expr(by_text[t]))]
            own = [t for t in by_text if t not in arg]
            if len(arg) > 1 or len(own) > 1:
                continue
            n += 1
            forced = SIZE_FORCED[f['n']][0 if not val else 1]
            role = '%s:`return %s` on sizes alone only where the sizes force it' % (role0, 'true' if val else 'false')
            st, info = bounded.decide(prog, f, tuple(keep), lambda ev: forced(ev.by_text[own[0]] if own else 0, ev.by_text[arg[0]] if arg else 0), {}, by_text, range(0, 5), G=g)
            ctx.evaluations += 25
            if st == 'holds':
                ctx.ok('C02.sizecut', f['pq'], role, fwhere(f, rt.get('l')), 'the guards admit only forced sizes on the grid (%s points)' % info)
            elif st == 'fails':
                ctx.violation('C02.sizecut', f['pq'], role, fwhere(f, rt.get('l')), 'with %s the function answers %s from the sizes alone, but sets of these sizes exist for which the answer is %s (a set and an equal set built in another order): the predicate depends on more than the contents' % (
                    ', '.join('%s = %s' % kv for kv in sorted(info.items())), 'true' if val else 'false', 'false' if val else 'true'))
            else:
                ctx.undecided('C02.sizecut', f['pq'], role, fwhere(f, rt.get('l')), str(info))
    ctx.info['size_shortcuts_examined'] = n      # none is fine: a predicate without a size shortcut has nothing to decide here


def check_dup(ctx, prog):
    """C02.dup: clone() = dup() leaves a map with the same entries.  dup() either re-inserts every entry it enumerates from
    *this into a fresh local map through operator[] (the insertion and the enumeration are decided by their own rules) and then
    swaps the tables, or copies the bucket chains by hand.  A hand copy is held to the conditions of a chain copy: a link store
    `t->next = new node` inside a loop needs a tail `t` that the loop advances (otherwise every node after the second of a
    bucket overwrites the same link and is lost, while the count still includes it), and the new table's count is set from
    the source or stepped per node."""
    n = 0
    seen = set()
    for f in hm_members(prog, 'dup'):
        if f['params']:
            continue
        role = 'dup:the copy has every entry'
        if role in seen:
            continue
        ctx.analysed(f)
        loops = [s_ for s_ in ir.walk_stmts(f['body']) if s_.get('k') in ('for', 'while', 'do')]
        locs = dict((v['id'], v) for s_ in ir.walk_stmts(f['body']) if s_.get('k') == 'decl' for v in s_['vars'] if T(f, v['t']).get('recp') == 'asl::HashMap' and not T(f, v['t']).get('ref'))
        news = [e for e in fn_exprs(f) if e.get('k') == 'new']
        reinserts = []
        for lp in loops:
            for e in ir.stmt_exprs(lp['body']):
                if e.get('k') == 'call' and (e.get('pq') or '') in ('asl::HashMap::operator[]', 'asl::HashMap::set') and e.get('obj') is not None and strip_lv(e['obj']).get('id') in locs:
                    reinserts.append((lp, e))
        def mentions_this(w):
            ops = list(w.get('a') or []) + ([w['obj']] if w.get('obj') is not None else [])
            return any(x.get('k') == 'this' for o_ in ops for x in walk_expr(o_))
        enum_this = any(w.get('k') in ('construct', 'call') and ('numerator' in (w.get('fn') or w.get('cls') or '') or (w.get('pq') or '').split('::')[-1] == 'all') and mentions_this(w) for w in fn_exprs(f))
        swaps = [e for e in q.fn_exprs_inlined(prog, f) if e.get('k') == 'call' and (e.get('pq') or e.get('fn') or '').split('<')[0].split('::')[-1] == 'swap']
        seen.add(role)
        n += 1
        if reinserts and enum_this and swaps and not news:
            ctx.ok('C02.dup', f['pq'], role, fwhere(f), 'every enumerated entry of *this is re-inserted into a fresh map through operator[], then the tables are swapped')
            continue
        if not news:
            ctx.undecided('C02.dup', f['pq'], role, fwhere(f), 'neither re-insertion through operator[] of a fresh local map nor a hand-written chain copy was recognised')
            continue
        problems = []
        for lp in loops:
            inner = [x for x in ir.walk_stmts(lp['body']) if x.get('k') in ('for', 'while', 'do')]
            exprs = list(ir.stmt_exprs(lp)) if lp.get('k') != 'for' else list(ir.stmt_exprs(lp['body'])) + ([lp['c']] if lp.get('c') else []) + ([lp['inc']] if lp.get('inc') else [])
            flat = [w for e in exprs for w in walk_expr(e)]
            assigned = set()
            for w in flat:
                if w.get('k') == 'bin' and w.get('op', '').endswith('=') and w['op'] not in ('==', '!=', '<=', '>=') and strip_lv(w['x']).get('k') == 'var':
                    assigned.add(strip_lv(w['x'])['id'])
                if w.get('k') == 'un' and w.get('op') in ('post++', 'pre++', 'post--', 'pre--') and strip_lv(w['e']).get('k') == 'var':
                    assigned.add(strip_lv(w['e'])['id'])
            declared = set(v['id'] for x in ir.walk_stmts(lp['body']) if x.get('k') == 'decl' for v in x['vars'])
            for w in flat:
                if w.get('k') == 'bin' and w.get('op') == '=' and any(x.get('k') == 'new' for x in walk_expr(w['y'])):
                    lv = strip_lv(w['x'])
                    if lv.get('k') == 'mem' and strip_lv(lv.get('b') or {}).get('k') == 'var':
                        base = strip_lv(lv['b'])
                        reads_old = any(x.get('k') == 'mem' and x.get('f') == lv.get('f') and strip_lv(x.get('b') or {}).get('id') == base['id'] for x in walk_expr(w['y']))
                        if base['id'] not in assigned and base['id'] not in declared and not reads_old:
                            problems.append((w.get('l'), '`%s` is stored in a loop that never advances `%s`: every iteration overwrites the same link, so of a chain of three or more entries only the first and the last reach the copy (length() still counts all of them, the others leak)' % (pe(w)[:60], base.get('n'))))
        counts = [e for e in fn_exprs(f) if (e.get('k') == 'bin' and e.get('op', '').endswith('=') and e['op'] not in ('==', '!=', '<=', '>=') and strip_lv(e['x']).get('k') == 'call' and (strip_lv(e['x']).get('pq') or '').endswith('::_n')) or
                  (e.get('k') == 'un' and e.get('op') in ('post++', 'pre++') and strip_lv(e['e']).get('k') == 'call' and (strip_lv(e['e']).get('pq') or '').endswith('::_n'))]
        if not counts:
            problems.append((f.get('line'), 'the hand-copied table never receives an entry count'))
        if problems:
            ctx.violation('C02.dup', f['pq'], role, fwhere(f, problems[0][0]), problems[0][1])
        else:
            ctx.ok('C02.dup', f['pq'], role, fwhere(f), 'hand-written chain copy: every link store in a loop goes through a tail the loop advances, the count is set (necessary conditions only)')
    ctx.floor('C02.dup', n, 1)


def check_table_owner(ctx, prog):
    """C02.tablesize: the number of buckets changes only where every entry is (re)placed for the new size: in the constructors,
    rehash(), dup() and the handle assignment, or in non-public helpers only these call.  Any other member that resizes,
    reserves, assigns or swaps the bucket array leaves entries in chains chosen for the old size (and, when it grows the
    array, buckets that were never set to 0)."""
    allowed = set(('rehash', 'dup', 'operator=', 'clone'))
    members = [f for f in prog.functions if f.get('clsp') == 'asl::HashMap' and f.get('body') and not f.get('implicit') and 'Enumerator' not in (f.get('cls') or '')]

    def resizes(f):
        out = []
        for e in fn_exprs(f):
            if e.get('k') == 'call' and e.get('obj') is not None and (e.get('pq') or '') in ('asl::Array::resize', 'asl::Array::reserve', 'asl::Array::operator=', 'asl::Array::clear', 'asl::Array::operator<<', 'asl::Array::insert', 'asl::Array::remove'):
                o = strip_lv(e['obj'])
                if o.get('k') == 'mem' and o.get('f') == 'a' and strip_lv(o.get('b') or {'k': 'this'}).get('k') == 'this':
                    out.append(e)
            if e.get('k') == 'call' and (e.get('pq') or e.get('fn') or '').split('<')[0].split('::')[-1] == 'swap' and any(
                    strip_lv(a).get('k') == 'mem' and strip_lv(a).get('f') == 'a' and strip_lv(strip_lv(a).get('b') or {'k': 'this'}).get('k') == 'this' for a in e.get('a') or []):
                out.append(e)
        return out
    callers = {}
    for f in members:
        for e in fn_exprs(f):
            if e.get('k') == 'call' and e.get('clsp') == 'asl::HashMap' and (e.get('obj') is None or strip_lv(e['obj']).get('k') == 'this'):
                callers.setdefault(e.get('pq'), set()).add('<ctor>' if f.get('kind') in ('ctor', 'dtor') else f['n'])
    ok_names = set(allowed)
    grew = True
    while grew:
        grew = False
        for f in members:
            if f['n'] in ok_names or f.get('kind') in ('ctor', 'dtor') or f.get('acc') not in ('private', 'protected'):
                continue
            cs = callers.get(f.get('pq'))
            if cs and all(c == '<ctor>' or c in ok_names for c in cs):
                ok_names.add(f['n'])
                grew = True
    n = 0
    seen = set()
    for f in members:
        rs = resizes(f)
        if not rs:
            continue
        if f.get('kind') in ('ctor', 'dtor') or f['n'] in ok_names:
            n += 1
            continue
        if f['pq'] in seen:
            continue
        seen.add(f['pq'])
        n += 1
        ctx.analysed(f)
        ctx.violation('C02.tablesize', f['pq'], '%s%s:bucket array sized only where entries are placed' % (f['n'], f.get('sig') or ''), fwhere(f, rs[0].get('l')),
                      '%s changes the bucket array (`%s`) outside construction and rehash(): entries keep the chains chosen for the old size, and buckets added by a growing resize are never cleared - lookups follow garbage chain pointers' % (f['n'], pe(rs[0])[:60]))
    if n and not any(o.rule == 'C02.tablesize' and o.status == 'violation' for o in ctx.obligations):
        ctx.ok('C02.tablesize', 'asl::HashMap', 'bucket array sized only where entries are placed', '', '%d member instantiation(s) size the table: constructors, rehash(), dup(), operator= and their private helpers only' % n)
    ctx.floor('C02.tablesize', n, 2)


def check_string_order(ctx, prog):
    """C02.order: the ordering the sorted maps use for String keys is the byte-string order.  `compare(const String&, const String&)`
    (the overload Map::indexOf resolves to for Dic) is interpreted (scansim) on every ordered pair over a small set of keys that
    includes proper prefixes and the empty key: its sign must be that of the byte-wise comparison, in particular 0 only for
    equal keys - a comparison that stops at the shorter length merges "abc" with "abcd"."""
    import scansim
    fs = [f for f in prog.functions if f.get('pq') == 'asl::compare' and f.get('body') and len(f.get('params') or []) == 2 and
          all(T(f, T(f, p_['t']).get('to') or p_['t']).get('rec') == 'asl::String' for p_ in f['params'])]
    if not fs:
        ctx.info['string_order'] = 'no compare(const String&, const String&) in the analysed units'
        return
    f = fs[0]
    ctx.analysed(f)
    keys = ['', 'a', 'ab', 'abc', 'abd', 'b', 'ab/c', 'ab/cd', 'B', 'a\xc3\xa9']
    bad = und = None
    runs = 0
    for x in keys:
        for y in keys:
            bufs = {}
            r = scansim.Run(prog, f, bufs, objects=True, methods={'*': 'interp'})
            for p_, txt in zip(f['params'], (x, y)):
                bufs[('O', p_['id'])] = [ord(c) if ord(c) < 128 else ord(c) - 256 for c in txt] + [0]
                r.objlen[p_['id']] = len(txt)
                r.strobjs.add(p_['id'])
            runs += 1
            try:
                got = r.run()
            except scansim.OOB as o:
                bad = 'compare("%s", "%s") leaves the strings: %s' % (x, y, o)
                break
            except (scansim.Unsupported, TypeError, KeyError, IndexError, ValueError) as u:
                und = str(u)
                break
            bx, by = x.encode('latin-1'), y.encode('latin-1')
            want = (bx > by) - (bx < by)
            if not isinstance(got, int) or ((got > 0) - (got < 0)) != want:
                bad = 'compare("%s", "%s") gives %s, the byte-string order gives %s: %s' % (x, y, got, want, 'the two keys are one key to the map (the second insertion overwrites the first, has() answers for the other)' if got == 0 else 'the array is not sorted the way the binary search assumes')
                break
        if bad or und:
            break
    ctx.evaluations += runs
    role = 'compare(const String &,const String &):byte-string order, 0 only for equal keys'
    if und and not bad:
        ctx.info['string_order'] = 'outside the interpreted fragment: %s' % und
    else:
        ctx.check(bad is None, 'C02.order', f['pq'], role, fwhere(f), 'interpreted on %d ordered pairs of keys (prefixes, empty key, non-ASCII)' % runs, bad or '')


def check_share(ctx, prog):
    n = 0
    for cls in ('asl::Map', 'asl::HashMap'):
        for f in prog.functions:
            if f.get('clsp') != cls or not f.get('body') or f.get('implicit'):
                continue
            if f.get('kind') in ('ctor', 'dtor') or f['n'] in ('operator=', 'dup', 'rehash', 'clone'):
                continue
            pids = set(p['id'] for p in f['params'] if T(f, T(f, p['t']).get('to')).get('recp') in ('asl::Map', 'asl::HashMap', 'asl::Dic', 'asl::HashDic'))
            if not pids:
                continue
            n += 1
            ctx.analysed(f)
            bad = []
            for e in fn_exprs(f):
                if e.get('k') == 'call' and e.get('pq') in ('asl::Array::operator=',) and e.get('obj') is not None and strip_lv(e['obj']).get('f') == 'a' and strip_lv(strip_lv(e['obj']).get('b') or {}).get('k') == 'this':
                    src = strip(e['a'][0])
                    if src.get('k') == 'mem' and src.get('f') == 'a' and strip(src.get('b') or {}).get('id') in pids:
                        bad.append(e)
            role = f['n'] + f['sig'] + ':copies entries, never adopts the argument\'s storage'
            if bad:
                ctx.violation('R-SHARE', f['pq'], role, fwhere(f, bad[0]['l']), '%s assigns the argument\'s element array by handle (`%s`): both maps then share one storage, a later insert/remove through either changes the other (and growth leaves it dangling) (%s)' % (f['pq'], pe(bad[0]), f['q']))
            else:
                ctx.ok('R-SHARE', f['pq'], role, fwhere(f), 'entries are copied one by one')
    ctx.floor('R-SHARE map members', n, 3)


def check_chain_remove(ctx, prog):
    """C02.chain: HashMap::remove interpreted (scansim) on a model bucket: a chain of 1..4 nodes (records key/value/next), the
    key to remove at every position or absent.  Afterwards the chain reachable from the bucket head must be the original one
    without the removed node, in order; exactly that node was deleted; no deleted node was read or written."""
    import scansim
    fs = [f for f in hm_members(prog, 'remove') if len(f['params']) == 1]
    n = 0
    for f in fs:
        kt = T(f, f['params'][0]['t'])
        kt = T(f, kt.get('to')) if kt.get('ref') else kt
        if not kt.get('int'):
            continue                # driven on the integer-keyed instantiations (the code is the same template)
        n += 1
        ctx.analysed(f)
        role = 'remove:the chain keeps every other entry'
        keys_all = [7, 263, 519, 775]
        bad = und = None
        runs = 0
        for m in range(1, 5):
            keys = keys_all[:m]
            for target in keys + [1031]:
                recs = {}
                for i, k in enumerate(keys):
                    recs['n%d' % i] = {'key': k, 'value': 2 * k, 'next': ('R', 'n%d' % (i + 1)) if i + 1 < m else 0}
                bufs = {('O', 'bk'): [('R', 'n0')]}
                mems = {'a': ('P', ('O', 'bk'), 0)}
                r = scansim.Run(prog, f, bufs, mems=mems, methods={'binOf': lambda run, e, args: 0, '*': 'interp'}, objects=True,
                                ignore=lambda st: st.get('k') == 'expr' and any(w.get('k') == 'call' and (w.get('pq') or '').endswith('::_n') for w in ir.stmt_exprs(st)))
                r.recs.update(recs)
                r.objlen['bk'] = 1
                r.vars[f['params'][0]['id']] = target
                runs += 1
                desc = 'removing key %d from a bucket chain holding %s' % (target, keys)
                try:
                    r.run()
                except scansim.OOB as o:
                    bad = '%s touches a deleted node or leaves the bucket array: %s' % (desc, o)
                    break
                except (scansim.Unsupported, TypeError, KeyError, IndexError) as u:
                    und = '%s: %s' % (desc, u)
                    break
                chain = []
                p_ = bufs[('O', 'bk')][0]
                while isinstance(p_, tuple) and p_[0] == 'R' and len(chain) < 10:
                    chain.append(p_[1])
                    p_ = r.recs[p_[1]]['next'] if not r.recs[p_[1]].get('__freed') else 0
                want = ['n%d' % i for i, k in enumerate(keys) if k != target]
                freed = sorted(nm for nm, rec in r.recs.items() if rec.get('__freed'))
                want_freed = ['n%d' % i for i, k in enumerate(keys) if k == target]
                if chain != want or freed != want_freed:
                    lost = [recs[x]['key'] for x in want if x not in chain]
                    bad = '%s leaves the chain %s%s%s' % (desc, [recs[x]['key'] for x in chain], ' - the entries %s are still in the map but unreachable (find/has miss them, enumeration skips them, the nodes leak)' % lost if lost else '',
                                                         '; deleted nodes: %s, expected %s' % ([recs[x]['key'] for x in freed], [recs[x]['key'] for x in want_freed]) if freed != want_freed else '')
                    break
            if bad or und:
                break
        ctx.evaluations += runs
        if und:
            ctx.undecided('C02.chain', f['pq'], role, fwhere(f), 'outside the interpreted fragment: %s' % und)
        else:
            ctx.check(bad is None, 'C02.chain', f['pq'], role, fwhere(f), 'interpreted for %d (chain length, position) cases' % runs, bad or '')
    ctx.floor('C02.chain remove() instantiations with integer keys', n, 1)


def check_map_alias(ctx, prog):
    """R-ALIAS for the sorted-array Map: a member that receives a key or value by reference (`const K&`, `const T&` - possibly an
    entry of this very map: `m.set(k, m[j])`) must not read it after the element array was invalidated (insert shifts or
    reallocates it).  Same typestate analysis as for Array / String / Var, with Array's own summaries for the forwarded calls."""
    import alias, C01
    ac_arr = alias.AliasClass(prog, ctx, 'Array', 'asl::Array', ('_a',), (), C01.array_risk)
    unsafe_arr, _ = ac_arr.run('R-ALIAS', report=False)

    def map_risk(f, p):
        t = T(f, p['t'])
        if not t.get('ref'):
            return False
        to = T(f, t.get('to'))
        if to.get('recp') in ('asl::Map', 'asl::Dic'):
            return f.get('n') == 'operator='
        # key / value parameters: reference to one of the class's template arguments
        s = (to.get('s') or '')
        s = s[6:] if s.startswith('const ') else s
        cls = f.get('cls') or ''
        args = cls[cls.find('<') + 1:cls.rfind('>')] if '<' in cls else ''
        parts, depth, cur = [], 0, ''
        for ch in args:
            if ch == '<':
                depth += 1
            elif ch == '>':
                depth -= 1
            if ch == ',' and depth == 0:
                parts.append(cur.strip())
                cur = ''
            else:
                cur += ch
        if cur.strip():
            parts.append(cur.strip())
        return s in parts
    ac = alias.AliasClass(prog, ctx, 'Map', 'asl::Map', (), ('a',), map_risk)
    unsafe, n = ac.run('R-ALIAS', extern_summaries=unsafe_arr)
    ctx.floor('R-ALIAS Map members x at-risk params', n, 4)


def check_rehash_model(ctx, prog):
    """C02.rehash (model): `rehash()` interpreted (scansim) on a model table - 2 or 4 buckets behind the header slots, a chain of
    one or two nodes in every bucket, the count at the growth threshold.  Afterwards every node must hang, exactly once, in the
    chain of the bucket that `binOf(key)` - interpreted on the new table - selects (so lookups find every entry that was
    inserted), and no chain may contain a node twice."""
    import scansim
    fs = [f for f in hm_members(prog, 'rehash') if not f['params']]
    binofs = dict((g['cls'], g) for g in hm_members(prog, 'binOf'))
    n = 0
    for f in fs:
        bo = binofs.get(f.get('cls'))
        if bo is None:
            continue
        kt = T(bo, bo['params'][0]['t'])
        kt = T(bo, kt.get('to')) if kt.get('ref') else kt
        if (kt.get('s') or '').replace('const ', '') != 'int':
            continue                # driven on the int-keyed instantiations: hash(int) is the identity, other keys hash their bytes
        n += 1
        ctx.analysed(f)
        role = 'rehash:every entry is found in the grown table'
        bad = und = None
        runs = 0
        skip_stmt = lambda st: st.get('k') == 'expr' and any(w.get('k') == 'bin' and w.get('op') == '=' and strip_lv(w['x']).get('k') == 'call' and (strip_lv(w['x']).get('pq') or '').endswith('::_n') for w in ir.stmt_exprs(st))
        for nb in (2, 4):
            for keys in ([1, 2, 3, 4, 5, 6, 7, 8][:nb * 2], [k * 37 + 11 for k in range(nb * 2)], [nb - 1 + nb * j for j in range(3)] + list(range(nb))):
                skip = None
                # SKIP is read off binOf: bucket of key 0 on the old geometry
                table0 = [len(keys), 0] + [0] * nb
                try:
                    skip = scansim.Run(prog, bo, {('O', 'bk'): list(table0)}, mems={'a': ('P', ('O', 'bk'), 0)}, methods={'*': 'interp'}, objects=True)
                    skip.objlen['bk'] = len(table0)
                    skip.vars[bo['params'][0]['id']] = 0
                    hdr = skip.run()
                except (scansim.Unsupported, scansim.OOB, TypeError, KeyError) as u:
                    und = 'binOf: %s' % u
                    break
                table = [len(keys)] + [0] * (hdr - 1) + [0] * nb
                recs = {}
                for i, k in enumerate(keys):
                    rb = scansim.Run(prog, bo, {('O', 'bk'): list(table)}, mems={'a': ('P', ('O', 'bk'), 0)}, methods={'*': 'interp'}, objects=True)
                    rb.objlen['bk'] = len(table)
                    rb.vars[bo['params'][0]['id']] = k
                    b = rb.run()
                    recs['n%d' % i] = {'key': k, 'value': 2 * k, 'next': table[b] if table[b] else 0}
                    table[b] = ('R', 'n%d' % i)
                bufs = {('O', 'bk'): table}
                mems = {'a': ('P', ('O', 'bk'), 0)}
                r = scansim.Run(prog, f, bufs, mems=mems, methods={'*': 'interp'}, objects=True, ignore=skip_stmt)
                r.recs.update(recs)
                r.objlen['bk'] = len(table)
                runs += 1
                desc = 'a table of %d buckets holding the keys %s' % (nb, keys)
                try:
                    r.run()
                except scansim.OOB as o:
                    bad = 'rehash of %s leaves the bucket arrays: %s' % (desc, o)
                    break
                except (scansim.Unsupported, TypeError, KeyError, IndexError) as u:
                    und = '%s: %s' % (desc, u)
                    break
                pv = mems.get('a')
                newt = bufs.get(pv[1]) if isinstance(pv, tuple) and pv[0] == 'P' else None
                if newt is None or len(newt) <= len(table):
                    und = '%s: the table did not grow (threshold not reached in the model)' % desc
                    break
                where = {}
                for bi in range(hdr, len(newt)):
                    p_, steps = newt[bi], 0
                    while isinstance(p_, tuple) and p_[0] == 'R' and steps < 20:
                        where.setdefault(p_[1], []).append(bi)
                        p_ = r.recs[p_[1]]['next']
                        steps += 1
                for i, k in enumerate(keys):
                    rb = scansim.Run(prog, bo, {('O', 'nt'): list(newt)}, mems={'a': ('P', ('O', 'nt'), 0)}, methods={'*': 'interp'}, objects=True)
                    rb.objlen['nt'] = len(newt)
                    rb.vars[bo['params'][0]['id']] = k
                    want = rb.run()
                    got = where.get('n%d' % i, [])
                    if got != [want]:
                        bad = 'after rehash of %s the entry with key %d is %s, lookups search bucket %d: %s' % (
                            desc, k, 'in no chain' if not got else 'in bucket(s) %s' % got, want, 'the entry is lost (length() still counts it, find/has miss it, the node leaks)' if not got else 'lookups miss it')
                        break
                if bad:
                    break
            if bad or und:
                break
        ctx.evaluations += runs
        if und:
            ctx.undecided('C02.rehash', f['pq'], role, fwhere(f), 'outside the interpreted fragment: %s' % und)
        else:
            ctx.check(bad is None, 'C02.rehash', f['pq'], role, fwhere(f), 'interpreted on %d model tables: every node hangs once in the bucket binOf() selects on the grown table' % runs, bad or '')
    ctx.floor('C02.rehash model instantiations with integer keys', n, 1)
