"""C06 - JSON/XDL decoding: the parser as an abstract state machine, decided statically.

 C06.stack       abstract interpretation of XdlParser::parse (with value_end/begin_*/end_*/put/new_property inlined or modelled) over
                 every reachable configuration (state, previous state, comment flag, escape counter, abstract context stack with the
                 pending-name count of each object) x every non-NUL byte: no pop of the ROOT context, no top() of an empty stack, a value
                 is stored into an object only when a property name is pending, container pushes/pops pair with value-list pushes/pops
 C06.escape      every \\u escape completes: the escape state is never entered with a digit counter that cannot reach 4 or 8
 C06.pushback    the one-character push-back never loops and never steps back more than the byte just read
 C06.exhaustive  switch(_state) has a case for every state enumerator; the comment switch for every comment context
 C06.accept      value() yields a result only for (top == ROOT, state == WAIT_VALUE, state != ERR); decode() flushes with a blank
 C06.chunks      chunk independence (structural): inside the loop the cursor is only read by `c = *s++` and stepped back by `s--`
                 (no look-ahead / look-behind), every other variable read in the loop is a member, a constant or a per-iteration local,
                 and the function has no static locals
 C06.numbers    digit strings longer than 9 characters are converted by the floating-point conversion (no integer accumulation that can
                 wrap), shorter ones by the int conversion
 Agreement with an independent JSON parser on accepted documents and values is not decided."""
import os
import ir, q, automaton, bytesets, bounded
from ir import strip, strip_lv, const_val, T, pe, walk_expr, fn_exprs, AnalysisBroken
from core import fwhere

COMMENT_KINDS = ('COMMENT1', 'COMMENT', 'LINECOMMENT', 'ENDCOMMENT')


def run(ctx):
    units = [os.path.join(ir.REPO, 'src', 'Xdl.cpp')]
    if ctx.tier == 'thorough':
        units += [u for u in ir.library_units() if u not in units]
    prog = ir.load_units(units)
    ctx.use_program(prog)
    automaton.K = 3 if ctx.tier == 'thorough' else 2     # exact window of the abstract context stack
    m = build_machine(ctx, prog)
    check_machine(ctx, prog, m)
    check_exhaustive(ctx, prog)
    check_accept(ctx, prog)
    check_chunks(ctx, prog, m)
    check_fresh(ctx, prog)
    check_corpus(ctx, prog, m)
    check_numbers(ctx, prog)
    check_utf16_helper(ctx)
    import nullret
    nullret.check(ctx, prog, 'C06', ('Xdl.cpp',))
    # every decoded string value is stored through Var(const String&) / Var(const char*): the representation these constructors
    # write (inline buffer up to its size less the terminator, heap copy beyond) is the shared rule of C04
    import C04
    vunits = [os.path.join(ir.REPO, 'src', 'Var.cpp'), os.path.join(ir.VERIF, 'drivers', 'inst_containers.cpp')]
    vprog = ir.load_units(vunits, force_inst=[vunits[1]])
    C04.check_inline(ctx, vprog)
    C04.check_strrep(ctx, vprog)
    # what the decoder makes of each escape sequence (shared with C05: the encoder's text for every byte, read back through the
    # interpreted decoder transitions, must be that byte - a swapped or missing escape letter changes the decoded value)
    import C05
    try:
        C05.check_escape(ctx, prog)
    except automaton.Stuck as ex:
        ctx.undecided('C05.escape', 'asl::XdlParser::parse', 'parse:escape sequences decoded to the JSON characters', '/repo/src/Xdl.cpp:0', 'the decoder loop uses a construct the abstract interpreter cannot represent: %s' % ex)
    return __doc__.split('\n\n', 1)[1]


def fn1(prog, name, sig=None):
    fs = [f for f in prog.fn(name, sig) if f.get('body')]
    if not fs:
        raise AnalysisBroken('anchor %s%s not found' % (name, sig or ''))
    return fs[0]


def enum_of(prog, const_name):
    for qn, en in prog.enums.items():
        if any(c['n'] == const_name for c in en['consts']):
            return en
    raise AnalysisBroken('enum with enumerator %s not found' % const_name)


def build_machine(ctx, prog, explore=True, extra_intrinsics=None):
    f = fn1(prog, 'asl::XdlParser::parse')
    ctx.analysed(f)
    states = enum_of(prog, 'WAIT_VALUE')
    ctxs = enum_of(prog, 'ROOT')
    S = dict((c['n'], c['v']) for c in states['consts'])
    C = dict((c['n'], c['v']) for c in ctxs['consts'])
    Cn = dict((v, k) for k, v in C.items())
    ctx.info['state_names'] = sorted(S, key=S.get)
    ctx.info['contexts'] = sorted(C, key=C.get)

    def push_kind(m, env, arg, c):
        a = strip(arg)
        v = const_val(a)
        if v is None:
            v = m.ev(arg, env, c)
        if v is automaton.U or v not in Cn:
            raise automaton.Stuck('context push of an untracked value at line %d' % arg.get('l', 0))
        name = Cn[v]
        return name + ':0' if name == 'OBJECT' else name

    def kind_value(kd):
        return C[kd.split(':')[0]]

    def container_top(env):
        for i, kd in enumerate(env.stacks['_context']):
            if kd in COMMENT_KINDS:
                continue
            return i, kd
        return None, None

    def do_put(m, env, e, c):
        i, kd = container_top(env)
        if kd is None or kd == '*':
            return [env]
        if kd.startswith('OBJECT'):
            p = int(kd.split(':')[1])
            if p == 0:
                env.viol.append(('_props:value stored into an object without a pending name', e.get('l', 0),
                                 'put() reaches `_props.top()` / `_props.pop()` while the receiving object has no pending property name: the name stack can be empty'))
            else:
                st = list(env.stacks['_context'])
                st[i] = 'OBJECT:%d' % (p - 1)
                env.stacks['_context'] = tuple(st)
        return [env]

    def do_begin(m, env, e, c):
        env.events.append(('lists_push',))
        return [env]

    def do_end(m, env, e, c):
        env.events.append(('lists_pop',))
        return do_put(m, env, e, c)

    def do_newprop(m, env, e, c):
        i, kd = container_top(env)
        if kd is not None and kd.startswith('OBJECT'):
            p = int(kd.split(':')[1])
            st = list(env.stacks['_context'])
            st[i] = 'OBJECT:%d' % min(p + 1, 2)
            env.stacks['_context'] = tuple(st)
        elif kd is not None and kd != '*':
            env.viol.append(('_props:property name outside an object', e.get('l', 0), 'new_property() while the innermost container is %s' % kd))
        return [env]

    def after_step(m, before, after, ctl, c):
        pushes = len([ev for ev in after.events if ev[0] == 'push' and ev[1] == '_context' and (ev[2] == 'ARRAY' or ev[2].startswith('OBJECT'))])
        pops = len([ev for ev in after.events if ev[0] == 'pop' and ev[1] == '_context' and ev[2] is not None and (ev[2] == 'ARRAY' or ev[2].startswith('OBJECT'))])
        lp = len([ev for ev in after.events if ev[0] == 'lists_push'])
        lo = len([ev for ev in after.events if ev[0] == 'lists_pop'])
        if pushes != lp or pops != lo:
            m.violations.append(('_lists:container context and value list out of step', 0,
                                 'one transition pushes %d / pops %d container contexts but pushes %d / pops %d value lists: `_lists.top()`/`pop()` later act on the wrong or on a missing list' % (pushes, pops, lp, lo),
                                 m.describe(before), c & 255, b''))

    # initial values from the constructor / reset()
    init = {'_state': S['WAIT_VALUE'], '_prevState': S['WAIT_VALUE'], '_inComment': 0, '_unicodeCount': 0}
    for g in prog.functions:
        if g.get('cls') == 'asl::XdlParser' and g.get('kind') == 'ctor' and g.get('body') and not g.get('implicit'):
            for e in fn_exprs(g):
                if e.get('k') == 'bin' and e.get('op') == '=' and strip_lv(e['x']).get('f') in init and const_val(e['y']) is not None:
                    init[strip_lv(e['x'])['f']] = const_val(e['y'])
    desc = {
        'func': f,
        'tracked': dict((k, ('mem', v)) for k, v in init.items()),
        'clamp': {'_unicodeCount': (0, 12)},
        'stacks': {'_context': {'bottom': 'ROOT', 'init': ('ROOT',), 'push_kind': push_kind, 'kind_value': kind_value, 'transient': COMMENT_KINDS}},
        'inline': {'value_end'},
        'texts': ('_buffer',),            # followed concretely when a concrete document is run through the machine (C06.docs)
        'pure': {'myisspace', 'myisalnum', 'myisalpha', 'myisdigit'},
        'intrinsics': {'begin_array': do_begin, 'begin_object': do_begin, 'end_array': do_end, 'end_object': do_end,
                       'put': do_put, 'new_number': do_put, 'new_string': do_put, 'new_bool': do_put, 'new_property': do_newprop},
        'after_step': after_step,
        'stop_state': lambda env: env.vars['_state'] == S['ERR'],
    }
    if extra_intrinsics:
        desc['intrinsics'].update(extra_intrinsics)
    m = automaton.Machine(prog, desc)
    m.S, m.C = S, C
    if not explore:
        m.below['_context'] = set(['ARRAY', 'OBJECT:1'])
        return m
    try:
        m.explore()
    except automaton.Stuck as ex:
        ctx.undecided('C06.stack', f['pq'], 'parse:abstract interpretation', fwhere(f), 'the parser loop uses a construct the abstract interpreter cannot represent: %s' % ex)
        return None
    ctx.evaluations += m.transitions
    ctx.info['configurations'] = len(m.configs)
    ctx.info['transitions'] = m.transitions
    ctx.info['below_window_kinds'] = dict((k, sorted(v)) for k, v in m.below.items())
    return m


def check_machine(ctx, prog, m):
    if m is None:
        return
    f = m.f
    ctx.floor('C06 reachable configurations', len(m.configs), 100)
    Sn = dict((v, k) for k, v in m.S.items())
    groups = {}
    for role, line, detail, cfgdesc, byte, wit in m.violations:
        groups.setdefault(role, []).append((line, detail, cfgdesc, byte, wit))
    for role in groups:
        groups[role].sort(key=lambda x: (len(x[4]) if x[4] else 10**6))
    safety_roles = [r for r in groups if not r.startswith('push-back')]
    for role in sorted(safety_roles):
        line, detail, cfgdesc, byte, wit = groups[role][0]
        ctx.violation('C06.stack', f['pq'], 'parse:' + role, fwhere(f, line or None), '%s; e.g. on byte 0x%02x (%s) in configuration {%s} (%d abstract transitions); shortest abstract witness input %r' % (detail, byte, repr(chr(byte)) if 32 <= byte < 127 else '.', cfgdesc, len(groups[role]), wit))
    if not safety_roles:
        ctx.ok('C06.stack', f['pq'], 'parse:stack safety over all reachable configurations', fwhere(f), '%d configurations x 255 bytes, %d transitions: no unsafe pop/top/put' % (len(m.configs), m.transitions))
    pb = [r for r in groups if r.startswith('push-back')]
    if pb:
        line, detail, cfgdesc, byte, wit = groups[pb[0]][0]
        ctx.violation('C06.pushback', f['pq'], 'parse:' + pb[0], fwhere(f), '%s; byte 0x%02x in {%s}' % (detail, byte, cfgdesc))
    else:
        ctx.ok('C06.pushback', f['pq'], 'parse:push-back terminates', fwhere(f), 'no re-dispatch cycle, at most one byte stepped back')
    # escape completion
    bad = []
    for key in m.configs:
        vars_ = dict(key[0])
        if vars_['_state'] == m.S['UNICODECHAR'] and not (0 <= vars_['_unicodeCount'] < 8):
            bad.append(vars_)
    ctx.check(not bad, 'C06.escape', f['pq'], 'parse:every \\u escape completes', fwhere(f), 'escape state only entered with 0 <= digit count < 8',
              'the \\u escape state is reachable with digit counter %s: the counter then never equals 4 or 8 again, the parser stays in the escape state and swallows the rest of the document'
              % (sorted(set(v['_unicodeCount'] for v in bad))))
    # states that can be left: every non-ERR state reachable has some byte leading on (sanity, also gives evidence)
    ctx.info['reachable_states'] = sorted(set(Sn.get(dict(k[0])['_state'], '?') for k in m.configs))


def check_exhaustive(ctx, prog):
    f = fn1(prog, 'asl::XdlParser::parse')
    states = enum_of(prog, 'WAIT_VALUE')
    ctxs = enum_of(prog, 'ROOT')
    sw_state = sw_ctx = None
    for s_ in ir.walk_stmts(f['body']):
        if s_.get('k') == 'switch':
            c = strip(s_['c'])
            if c.get('k') == 'mem' and c.get('f') == '_state':
                sw_state = s_
            elif c.get('k') == 'var' and c.get('n') == 'ctx':
                sw_ctx = s_
    if sw_state is None:
        raise AnalysisBroken('parse(): switch on _state not found')

    def cases(sw):
        return set(x.get('v') for x in ir.walk_stmts(sw['body']) if x.get('k') == 'case' and x.get('v') is not None and x in direct_cases(sw))

    def direct_cases(sw):
        out = []
        body = sw['body']['s'] if sw['body'].get('k') == 'block' else [sw['body']]
        for st in body:
            x = st
            while x.get('k') in ('case', 'default'):
                out.append(x)
                x = x['sub']
        return out
    have = set(x.get('v') for x in direct_cases(sw_state) if x.get('k') == 'case')
    need = set(c['v'] for c in states['consts'])
    miss = sorted(n for n in need - have)
    names = dict((c['v'], c['n']) for c in states['consts'])
    ctx.evaluations += len(need)
    ctx.check(not miss, 'C06.exhaustive', f['pq'], 'parse:switch(_state) covers every state', fwhere(f, sw_state['l']), '%d states' % len(need),
              'switch(_state) has no case for %s: in that state every byte is silently ignored' % [names[x] for x in miss])
    if sw_ctx is not None:
        have = set(x.get('v') for x in direct_cases(sw_ctx) if x.get('k') == 'case')
        need = set(c['v'] for c in ctxs['consts'] if c['n'] in COMMENT_KINDS)
        cn = dict((c['v'], c['n']) for c in ctxs['consts'])
        ctx.check(need <= have, 'C06.exhaustive', f['pq'], 'parse:comment switch covers every comment context', fwhere(f, sw_ctx['l']), 'comment contexts %s' % sorted(cn[x] for x in need),
                  'the comment switch has no case for %s' % [cn[x] for x in need - have])
    else:
        # a parser without a dedicated comment switch must still never leave a comment context unhandled: decided by the machine
        ctx.ok('C06.exhaustive', f['pq'], 'parse:comment switch covers every comment context', fwhere(f), 'no separate comment switch; comment contexts handled by the interpreted code', nontrivial=False)


def check_utf16_helper(ctx):
    """\\uXXXX escapes (and surrogate pairs) are converted by asl::utf16toUtf8: its thresholds, layouts and surrogate ranges are
    decided by the region rule of C08 on String.cpp (the helper lives there)"""
    import C08
    prog2 = ir.load_units([os.path.join(ir.REPO, 'src', 'String.cpp')])
    f = C08.fn1(prog2, 'asl::utf16toUtf8')
    ctx.analysed(f)
    if not C08._guarded_abs(ctx, f, lambda: C08.abs_encoder(ctx, prog2, f, True)):
        C08.encoder_regions(ctx, prog2, f, True)


def check_accept(ctx, prog):
    f = fn1(prog, 'asl::XdlParser::value')
    ctx.analysed(f)
    states = enum_of(prog, 'WAIT_VALUE')
    ctxs = enum_of(prog, 'ROOT')
    S = dict((c['n'], c['v']) for c in states['consts'])
    C = dict((c['n'], c['v']) for c in ctxs['consts'])
    g = q.Guarded(f)
    # sites that produce a non-empty result: assignment to / initialisation of a local Var, `return <not a default Var or local>`
    def peel(e):
        e = strip(e)
        while isinstance(e, dict) and e.get('k') == 'construct' and len(e.get('a', [])) == 1 and 'asl::Var' in (e.get('fn') or e.get('pq') or ''):
            e = strip(e['a'][0])
        return e
    def is_var_t(t):
        tt = T(f, t)
        return tt.get('rec') == 'asl::Var' and not tt.get('ref') and not tt.get('ptr')
    sites = []
    for e in fn_exprs(f):
        if e.get('k') == 'call' and e.get('pq') == 'asl::Var::operator=' and strip(e['obj']).get('k') == 'var':
            sites.append((e, e['l']))
    for s_ in ir.walk_stmts(f['body']):
        if s_.get('k') == 'return' and s_.get('e') is not None:
            r = peel(s_['e'])
            if (r.get('k') == 'construct' and not r.get('a')) or (r.get('k') == 'var' and r.get('vk') == 'local'):
                continue
            sites.append((s_['e'], s_['l']))
        if s_.get('k') == 'decl':
            for v in s_['vars']:
                if v.get('init') is not None and is_var_t(v['t']):
                    r = peel(v['init'])
                    if not (r.get('k') == 'construct' and not r.get('a')):
                        sites.append((v['init'], s_['l']))
    state_text = set(pe(w) for w in fn_exprs(f) if w.get('k') == 'mem' and w.get('f') == '_state')
    top_text = set(pe(w) for w in fn_exprs(f) if w.get('k') == 'call' and (w.get('pq') or '').endswith('::top') and any(x.get('k') == 'mem' and x.get('f') == '_context' for x in walk_expr(w)))
    if not sites:
        ctx.undecided('C06.accept', f['pq'], 'value:only a completed root value is returned', fwhere(f), 'no result-producing site recognised in value()')
    grid = sorted(set(S.values()) | set(C.values()))
    for e, line in sites:
        role = 'value:only a completed root value is returned'
        if len(state_text) != 1 or len(top_text) != 1:
            ctx.violation('C06.accept', f['pq'], role, fwhere(f, line), 'value() produces a result without consulting both the parser state and the top of the context stack (reads: %s; %s): '
                          'a text cut before its final closing character is accepted' % (sorted(state_text), sorted(top_text)))
            continue
        st_t, top_t = list(state_text)[0], list(top_text)[0]
        bt = {st_t: None, top_t: None}
        st, info = bounded.decide(prog, f, g.of(e), lambda ev: ev.by_text[st_t] == S['WAIT_VALUE'] and ev.by_text[top_t] == C['ROOT'] and ev.by_text[st_t] != S['ERR'], {}, bt, grid)
        ctx.evaluations += len(grid) ** 2
        if st == 'undecided':
            ctx.undecided('C06.accept', f['pq'], role, fwhere(f, line), info)
        elif st == 'holds' and info:
            ctx.ok('C06.accept', f['pq'], role, fwhere(f, line), 'over all (state, context top) pairs the guards of the result admit only (WAIT_VALUE, ROOT)')
        elif st == 'holds':
            ctx.undecided('C06.accept', f['pq'], role, fwhere(f, line), 'no (state, context) pair reaches the result')
        else:
            names = dict((v, k) for k, v in S.items())
            cn = dict((v, k) for k, v in C.items())
            ctx.violation('C06.accept', f['pq'], role, fwhere(f, line), 'value() returns a result in state %s with context top %s: a text cut before its final closing character (or after an error) is accepted'
                          % (names.get(info[st_t], info[st_t]), cn.get(info[top_t], info[top_t])))
    d = fn1(prog, 'asl::XdlParser::decode', '(const char *)')
    ctx.analysed(d)
    calls = [e for e in fn_exprs(d) if e.get('k') == 'call' and e.get('pq') in ('asl::XdlParser::parse', 'asl::XdlParser::value')]
    seq = [e['pq'].split('::')[-1] for e in calls]
    flush = len(calls) >= 2 and any(w.get('k') == 'str' and w.get('b') == [32] for w in walk_expr(calls[1])) if len(calls) >= 2 else False
    ctx.check(seq == ['parse', 'parse', 'value'] and flush, 'C06.accept', d['pq'], 'decode:parse(text), parse(" "), value()', fwhere(d), 'flush with one blank', 'decode() is not parse(text); parse(" "); value(): a trailing number/identifier is never completed, or the flush can add input')


def conj(c):
    c = strip(c)
    if c.get('k') == 'bin' and c.get('op') == '&&':
        return conj(c['x']) + conj(c['y'])
    return [c]


def check_chunks(ctx, prog, m):
    f = fn1(prog, 'asl::XdlParser::parse')
    loop = None
    for s_ in ir.walk_stmts(f['body']):
        if s_.get('k') == 'while' and s_.get('cv'):
            loop = s_
            break
    if loop is None:
        raise AnalysisBroken('parse(): loop not found')
    cursor = None
    for w in walk_expr(loop['cv']['init']):
        if w.get('k') == 'un' and w.get('op') == 'post++':
            cursor = strip_lv(w['e'])
    # cursor uses inside the loop body
    bad = []
    for e in ir.stmt_exprs(loop['body']):
        if e.get('k') == 'var' and e.get('id') == cursor['id']:
            bad.append(e)
    # allowed: operand of post-- (push-back)
    allowed = set()
    for e in ir.stmt_exprs(loop['body']):
        if e.get('k') == 'un' and e.get('op') in ('post--', 'pre--') and strip_lv(e['e']).get('id') == cursor['id']:
            allowed.add(id(strip_lv(e['e'])))
    reads = [e for e in bad if id(e) not in allowed]
    ctx.evaluations += len(bad)
    ctx.check(not reads, 'C06.chunks', f['pq'], 'parse:no look-ahead or look-behind through the cursor', fwhere(f, reads[0]['l'] if reads else None), 'inside the loop the cursor is only stepped back by s--',
              'the loop reads the input through the cursor beyond the current byte (line %s): the decision depends on bytes of the same chunk that a different chunking delivers later (or earlier)' % (reads[0]['l'] if reads else ''))
    # ... and nothing outside the loop looks at the chunk: what parse() does with the first bytes of a call (a signature skipped, a
    # prefix tested) happens at every chunk start, i.e. depends on where the text was cut
    loop_ids = set(id(w) for e in ir.stmt_exprs(loop) for w in walk_expr(e))
    outside = [e for e in fn_exprs(f) if e.get('k') == 'var' and e.get('id') == cursor['id'] and id(e) not in loop_ids]
    ctx.check(not outside, 'C06.chunks', f['pq'], 'parse:the chunk is only read by the byte loop', fwhere(f, outside[0]['l'] if outside else None), 'no use of the cursor outside the loop',
              'parse() reads or moves its argument outside the byte loop (line %s): that code runs at the start of every chunk, so a text fed in pieces is treated differently from the same text fed whole' % (outside[0]['l'] if outside else ''))
    # variables read in the loop: members, per-iteration locals, c
    inner = set(v['id'] for s_ in ir.walk_stmts(loop['body']) if s_.get('k') == 'decl' for v in s_['vars'])
    inner.add(loop['cv']['id'])
    # condition variables of statements inside the loop (`if (char x = f(c))`) are per-iteration locals as well
    inner |= set(s_['cv']['id'] for s_ in ir.walk_stmts(loop['body']) if s_.get('k') in ('if', 'while', 'for', 'switch') and s_.get('cv'))
    carried = []
    for e in ir.stmt_exprs(loop['body']):
        if e.get('k') == 'var' and e.get('vk') in ('local', 'slocal', 'param') and e.get('id') not in inner and e.get('id') != cursor['id']:
            carried.append(e)
    # constant tables (const-qualified, never written) are not state, whether static or per call
    def is_const_decl(v):
        t = T(f, v['t'])
        if t.get('const'):
            return True
        el = T(f, t.get('to') or t.get('el'))
        return (t.get('n') is not None or t.get('arr') is not None) and bool(el.get('const'))
    const_ids = set(v['id'] for s_ in ir.walk_stmts(f['body']) if s_.get('k') == 'decl' for v in s_['vars'] if is_const_decl(v) and v['id'] not in bounded_assigned(f))
    carried = [e for e in carried if e.get('id') not in const_ids]
    statics = [v for s_ in ir.walk_stmts(f['body']) if s_.get('k') == 'decl' for v in s_['vars'] if v.get('static') and v['id'] not in const_ids]
    ctx.check(not carried and not statics, 'C06.chunks', f['pq'], 'parse:no per-call or static state carried between bytes', fwhere(f, carried[0]['l'] if carried else None), 'only members, constants and per-iteration locals are read',
              'the loop reads `%s`, which lives per call (or statically) and not in the parser object: parsing the same text in different chunks takes a different path' % (carried[0]['n'] if carried else statics[0]['n'] if statics else ''))
    # the early return at entry only tests members
    ctx.ok('C06.chunks', f['pq'], 'parse:machine configuration is (members, byte)', fwhere(f), 'the interpreted transition function depends only on members and the current byte', nontrivial=False)


def bounded_assigned(f):
    import bounded
    return bounded.assigned_vars(f)


def check_numbers(ctx, prog):
    """Every integer conversion routine applied to the number buffer runs only for literals short enough for its result type
    (9 characters for the 32-bit routines, 18 for the 64-bit ones); decided by evaluating the guards of the call with the
    buffer length bound to 0..40."""
    import bounded
    f = fn1(prog, 'asl::XdlParser::parse')
    g = q.Guarded(f)
    n = 0
    INT32 = ('myatoi', 'myatoiz', 'atoi')
    INT64 = ('myatol', 'atol', 'strtol', 'strtoll', 'atoll')
    FLT = ('atof', 'strtod', 'myatof')
    for e in fn_exprs(f):
        if e.get('k') != 'call' or (e.get('fn') or '').split('::')[-1] not in INT32 + INT64 + FLT:
            continue
        name = e['fn'].split('::')[-1]
        n += 0 if name in FLT else 1
        if name in FLT:
            ctx.ok('C06.numbers', f['pq'], 'parse:%s for long / fractional numbers' % name, fwhere(f, e['l']), 'floating conversion')
            continue
        limit = 9 if name in INT32 else 18
        role = 'parse:%s only for digit strings of at most %d characters' % (name, limit)
        lens = set(pe(w) for c, pol, kind in g.of(e) if isinstance(c, dict) for w in walk_expr(q.expand(f, c, bools_only=True)) if w.get('k') == 'call' and (w.get('pq') or '').endswith('::length'))
        if len(lens) > 1:
            ctx.undecided('C06.numbers', f['pq'], role, fwhere(f, e['l']), 'guards consult several lengths: %s' % sorted(lens))
            continue
        worst = None
        if lens:
            lt = list(lens)[0]
            rel = lambda c: any(w.get('k') == 'call' and pe(w) == lt for w in walk_expr(q.expand(f, c, bools_only=True)))
            for L in range(0, 41):
                r = bounded.admitted3(bounded.Bound(prog, f, {}, {lt: L}), g.of(e), g, relevant=rel)
                ctx.evaluations += 1
                if r is not False:
                    worst = L
        else:
            worst = 40
        ctx.check(worst is not None and worst <= limit, 'C06.numbers', f['pq'], role, fwhere(f, e['l']), 'integer conversion confined to <= %s characters' % worst,
                  'a number literal of %s characters is converted with the integer routine %s, whose result type only holds every literal of up to %d: longer literals wrap to unrelated values instead of the nearest double'
                  % ('unbounded length' if worst is None or worst >= 40 else worst, name, limit))
    # a parsed double is narrowed to int only when its guards confine it to the range of int
    for e in fn_exprs(f):
        if e.get('k') == 'cast' and e.get('ck') == 'FloatingToIntegral' and T(f, e.get('t')).get('bits') == 32:
            src = strip(q.expand(f, e['e']))
            if not any(w.get('k') == 'call' and (w.get('fn') or '').split('::')[-1] in FLT for w in walk_expr(src)):
                continue
            role = 'parse:a parsed double is narrowed to int only inside the range of int'
            try:
                by_id, by_text = bounded.atoms_of(prog, f, e['e'])
            except bounded.Undecidable as u:
                ctx.undecided('C06.numbers', f['pq'], role, fwhere(f, e['l']), str(u))
                continue
            grid = [-1e16, -2147483649.0, -2147483648.0, -1.0, 0.0, 2147483647.0, 2147483648.0, 1e16]
            inner = e['e']
            st, info = bounded.decide(prog, f, g.of(e), lambda ev: -2147483648.0 <= ev.ev(inner) <= 2147483647.0, by_id, by_text, grid, G=g)
            ctx.evaluations += len(grid)
            if st == 'undecided':
                ctx.undecided('C06.numbers', f['pq'], role, fwhere(f, e['l']), info)
            else:
                ctx.check(st == 'holds', 'C06.numbers', f['pq'], role, fwhere(f, e['l']), 'guards confine the value to [INT_MIN, INT_MAX]',
                          'the literal value %s reaches `(int)` (%s): integers beyond the range of int decode to INT_MIN / garbage instead of the double the text denotes' % (
                              ', '.join('%s' % v for v in info.values()) if isinstance(info, dict) else '', pe(e)))
    ctx.floor('C06.numbers integer conversions', n, 1)


CORPUS = [b'[1e5]', b'[1E+3,2]', b'{"a":1e5}', b'{"a":2E-3,"b":true}', b'[1.5,2]', b'[1.5]', b'[-1]', b'[0]', b'[10,20]', b'[1 ,2]', b'{"a":[1e2]}', b'[[1e1],2]',
          b'[true,false,null]', b'["x",1]', b'{"a":"b"}', b'[]', b'{}', b'[ ]', b'[1.0e+10 ]', b'[-0.5e-2,3]', b'{"a":{"b":[1,2.5,{"c":null}]},"d":"e"}',
          b'["\\u00e9\\n",{"k":[]}]', b'{"a\xc3\xb1o":["\xe2\x82\xac"]}', b'{"application/json":"text/plain"}', b'[1,\n 2]\n', b'{"a" : 1 , "b" : [ ] }',
          b'[-0]', b'{"a":-0}', b'[-0.0,-0e1]', b'[1.5 ,2]', b'[1.5\n,2e1\t]',
          # \u escapes: the four digits are hex digits of either case (RFC 8259 section 7), in values and in keys, surrogate pairs
          b'["\\u00E9"]', b'["\\u20AC\\uD83D\\uDE00"]', b'{"\\u00C9a":"\\uABCD\\uabcd\\uAbCd\\u0aF9\\uFFFF"}',
          # every two-character escape of RFC 8259, in values and in keys (the solidus one is never written by the encoder), DEL unescaped
          b'["\\/"]', b'{"u":"http:\\/\\/h\\/p"}', b'{"k\\/":true}', b'["\\"\\\\\\b\\f\\n\\r\\t"]', b'["a\x7fb"]',
          # XDL: items separated by new lines only (what the pretty encoder writes)
          b'{a=1.5\nb=2}', b'[1.5\n2.5\n]', b'{\n\ta=1.5e3\n\tb=[1.0\n2.0]\n\tc="x"\n}', b'{a=1\nb=Y\nc=[N\nY]}']


def check_corpus(ctx, prog, m):
    """C06.docs: a necessary condition of "every RFC 8259 document is accepted": for each document of a small corpus (numbers in
    every form directly followed by `,` `]` `}`, nested containers, strings with escapes, white space) the abstract parser
    machine - run on the document's bytes, following both branches wherever a decision depends on untracked data - has at
    least one run that ends with every container closed and no error.  If no run does, the real parser rejects (or
    mis-structures) that document whatever the untracked data are."""
    f = fn1(prog, 'asl::XdlParser::parse')
    states = enum_of(prog, 'WAIT_VALUE')
    S = dict((c['n'], c['v']) for c in states['consts'])
    role = 'parse:every document of the corpus has an accepting run'
    if m is None:
        return          # the parser loop is not a machine over its own state (reported by the machine / chunk rules)
    bad = None
    bad_prefix = None
    total = 0
    for doc in CORPUS:
        prefixes = []
        try:
            envs = m.run_text(doc, on_prefix=lambda es: prefixes.append(es))
        except automaton.Stuck as ex:
            ctx.undecided('C06.docs', f['pq'], role, fwhere(f), 'the abstract machine cannot follow %s: %s' % (doc.decode('latin-1'), ex))
            return
        total += len(envs)
        ctx.evaluations += len(doc)
        ok = [e for e in envs if e.vars.get('_state') != S['ERR'] and tuple(k for k in e.stacks['_context']) == ('ROOT',) and not e.vars.get('_inComment')]
        if not ok:
            bad = (doc, sorted(set(m.describe(e) for e in envs))[:3])
            break
        # ... and no proper prefix that stops before the final closing character is accepted: while a container is open no run
        # may show an empty container stack (the stack is followed exactly, so this needs no data)
        last = len(doc.rstrip()) - 1
        depth = mx = 0
        instr = esc = False
        for ch in doc.decode('latin-1'):
            if instr:
                esc = (ch == '\\') and not esc
                if ch == '"' and not esc:
                    instr = False
                continue
            if ch == '"':
                instr = True
            elif ch in '[{':
                depth += 1
                mx = max(mx, depth)
            elif ch in ']}':
                depth -= 1
        if mx > automaton.K:
            continue                # deeper than the exact window of the abstract stack: pops below it fork
        for k_, es in enumerate(prefixes[:last]):
            early = [e for e in es if e.vars.get('_state') != S['ERR'] and tuple(e.stacks['_context']) == ('ROOT',) and not e.vars.get('_inComment')]
            if early and doc[:1] in (b'[', b'{'):
                bad_prefix = (doc, doc[:k_ + 1])
                break
        if bad_prefix:
            break
    if bad_prefix:
        ctx.violation('C06.docs', f['pq'], 'parse:no proper prefix of a document is accepted', fwhere(f), 'after the prefix %s of the document %s a run of the parser shows every container closed: a truncated document is accepted as complete' % (
            bad_prefix[1].decode('latin-1'), bad_prefix[0].decode('latin-1')))
        return
    ctx.check(bad is None, 'C06.docs', f['pq'], role, fwhere(f), '%d documents, %d final configurations: each document has a run that closes every container without error' % (len(CORPUS), total),
              'no run of the parser over the valid document %s ends with all containers closed and no error (final configurations: %s): the document is rejected or its structure is lost' % (
                  bad[0].decode('latin-1').replace('\n', '\\n') if bad else '', '; '.join(bad[1]) if bad else ''))



def members_written(prog, f):
    """members of the current object that f (class helpers inlined) stores to, steps, or calls a non-const member on"""
    out = {}
    for e in q.fn_exprs_inlined(prog, f):
        tgt = None
        if e.get('k') == 'bin' and e.get('op', '').endswith('=') and e['op'] not in ('==', '!=', '<=', '>='):
            tgt = strip_lv(e['x'])
        elif e.get('k') == 'un' and e.get('op') in ('post++', 'pre++', 'post--', 'pre--'):
            tgt = strip_lv(e['e'])
        elif e.get('k') == 'call' and e.get('obj') is not None and 'const' not in (e.get('sig') or '').split(')')[-1]:
            tgt = strip_lv(e['obj'])
        while tgt is not None and tgt.get('k') == 'idx':
            tgt = strip_lv(tgt['b'])
        if tgt is not None and tgt.get('k') == 'mem' and tgt.get('f') and strip_lv(tgt.get('b') or {'k': 'this'}).get('k') == 'this':
            out.setdefault(tgt['f'], e.get('l'))
    return out


def check_fresh(ctx, prog):
    """C06.fresh: decode(text) is a function of the text.  The static decode / read entry points run the text through a parser
    that starts in the constructor's configuration: either an object constructed in that call (automatic storage), or - when
    the object outlives the call (static, thread_local, a reference handed out by a helper) - one that is reset first by a
    function assigning every member that the constructor initialises and parse() changes.  A comment flag or escape counter
    left by the previous text makes a valid document fail or decode differently."""
    ctor = [f for f in prog.fn('asl::XdlParser::XdlParser') if f.get('body') and not f.get('copyctor') and not f.get('implicit')]
    parse = fn1(prog, 'asl::XdlParser::parse')
    if not ctor:
        raise AnalysisBroken('XdlParser constructor not found')
    state = set(members_written(prog, ctor[0])) | set(i_['field'] for i_ in ctor[0].get('inits') or [] if i_.get('field') and i_.get('written'))
    state &= set(members_written(prog, parse))
    n = 0
    for name in ('asl::Xdl::decode', 'asl::Json::decode', 'asl::Xdl::read', 'asl::Json::read'):
        for g in prog.fn(name):
            if not g.get('body'):
                continue
            uses = [e for e in fn_exprs(g) if e.get('k') == 'call' and e.get('clsp') == 'asl::XdlParser' and e.get('obj') is not None and (e.get('pq') or '').split('::')[-1] in ('decode', 'parse', 'value')]
            if not uses:
                continue
            n += 1
            ctx.analysed(g)
            role = '%s%s:parser starts in the initial configuration' % (g['pq'].replace('asl::', ''), g.get('sig') or '')
            decls = dict((v['id'], v) for s_ in ir.walk_stmts(g['body']) if s_.get('k') == 'decl' for v in s_['vars'])
            verdict = None
            for e in uses:
                o = strip_lv(e['obj'])
                while o.get('k') in ('temp', 'paren', 'cast'):
                    o = strip_lv(o['e'])
                if o.get('k') == 'construct':
                    continue                        # a temporary
                if o.get('k') == 'var' and o.get('id') in decls:
                    v = decls[o['id']]
                    tv = T(g, v['t'])
                    if not v.get('static') and not tv.get('ref') and not tv.get('ptr'):
                        continue                    # automatic object of this call
                # an object that outlives the call: which function resets it, and what does that function cover?
                resets = set()
                helpers = [g]
                for w in fn_exprs(g):
                    if w.get('k') == 'call' and w.get('fn'):
                        helpers += [h for h in prog.fn(w['fn'], w.get('sig')) if h.get('body') and (h.get('file') or '') == (g.get('file') or '')]
                for h in helpers:
                    for w in fn_exprs(h):
                        if w.get('k') == 'call' and w.get('clsp') == 'asl::XdlParser' and w.get('obj') is not None and (w.get('pq') or '').split('::')[-1] not in ('decode', 'parse', 'value'):
                            for r_ in prog.fn(w['fn'], w.get('sig')):
                                if r_.get('body'):
                                    resets |= set(members_written(prog, r_))
                missing = sorted(state - resets)
                verdict = (e.get('l'), missing) if missing else verdict
                if missing:
                    break
            if verdict:
                ctx.violation('C06.fresh', g['pq'], role, fwhere(g, verdict[0]), 'the parser used here outlives the call and is not brought back to the constructor\'s configuration: member(s) %s are initialised by the constructor and changed by parse() but not assigned by the reset - a text that ends inside a comment or an escape changes how the next text is decoded' % ', '.join(verdict[1]))
            else:
                ctx.ok('C06.fresh', g['pq'], role, fwhere(g), 'a parser constructed in this call (or reset in all %d state members)' % len(state))
    ctx.info['parser_state_members'] = sorted(state)
    ctx.floor('C06.fresh', n, 2)
