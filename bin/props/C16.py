"""C16 - endian-aware binary streams: structural clauses decided statically.

 R-UNITS      every raw byte transfer read/write(void*, n) of File/Socket/StreamBuffer whose pointer designates
              objects wider than one byte has a byte count carrying a sizeof factor of that object type
 C16.scalar   every scalar operator<< / operator>> instantiation transfers exactly sizeof(T) bytes and swaps them
              iff the stream's byte-order member (re-read in that call) equals the non-native order
 C16.array    both branches of every Array<T> writer emit length x sizeof(T) bytes
 C16.reader   StreamBufferReader::readN: (byte index, shift) tables of both byte orders, cursor advance, widths
 C16.swap     swapBytes reverses exactly sizeof(T) bytes
"""
import os
import ir, q, bounded, bits, cfg as cfgm
from ir import strip, strip_lv, const_val, T, pe, walk_expr, fn_exprs, AnalysisBroken
from core import fwhere

STREAM_CLASSES = ('asl::StreamBuffer', 'asl::File', 'asl::Socket')
RAW_CLASSES = ('asl::StreamBuffer', 'asl::File', 'asl::Socket', 'asl::Socket_', 'asl::TlsSocket_', 'asl::PacketSocket_', 'asl::LocalSocket_')


PROG = None


def is_raw_transfer(e, _depth=0):
    """call of a member read/write(void*, int) of a stream class"""
    if e.get('k') != 'call' or e.get('ck') != 'method':
        return False
    if e.get('clsp') not in RAW_CLASSES:
        return False
    name = (e.get('pq') or '').rsplit('::', 1)[-1]
    sig = e.get('sig', '')
    if not (sig.startswith('(const void *,int') or sig.startswith('(void *,int')):
        return False
    if name in ('read', 'write'):
        return True
    # a forwarding wrapper of the same stream class (`readRaw(p, n)`): its body performs exactly one raw transfer of its own
    # (pointer, count) parameters
    if _depth < 2 and PROG is not None:
        for h in PROG.fn(e.get('fn'), sig):
            if h.get('body') and len(h.get('params', [])) >= 2:
                inner = [x for x in fn_exprs(h) if is_raw_transfer(x, _depth + 1)]
                if len(inner) == 1 and strip(inner[0]['a'][0]).get('id') == h['params'][0]['id'] and strip(inner[0]['a'][1]).get('id') == h['params'][1]['id']:
                    return True
    return False


def sizeof_nodes(e):
    for x in walk_expr(e):
        if x.get('k') == 'int' and x.get('sizeof') is not None:
            yield x


def endian_test(f, prog, cond, other_val, depth=0):
    """Is `cond` a comparison (stream byte-order member) == other_val ?  Returns (True, polarity) / (False, reason).
    The member may be reached through an accessor whose body returns it (inlined to depth 2).
    Conjuncts that the front end evaluates to a constant true (e.g. sizeof(T) > 1) are ignored."""
    c = strip(cond)
    while c.get('k') == 'bin' and c.get('op') == '&&':
        if const_val(c['y']) == 1:
            c = strip(c['x'])
        elif const_val(c['x']) == 1:
            c = strip(c['y'])
        else:
            break
    if c.get('k') != 'bin' or c.get('op') not in ('==', '!='):
        return False, 'condition is not an (in)equality'
    for a, b in ((c['x'], c['y']), (c['y'], c['x'])):
        v = const_val(b)
        if v is None:
            continue
        if not reads_endian_member(f, prog, a, 0):
            return False, 'compared expression does not re-read the stream byte-order member'
        if v != other_val:
            return False, 'compared with byte order %s, not with the non-native order' % v
        return True, c['op'] == '=='
    return False, 'no constant operand'


def reads_endian_member(f, prog, e, depth):
    e = strip(e)
    if e.get('k') == 'mem' and 'endian' in e.get('f', '').lower():
        return True
    if e.get('k') == 'call' and depth < 3 and e.get('fn'):
        for g in prog.fn(e['fn'], e.get('sig')):
            body = g.get('body') or {}
            rets = [s for s in ir.walk_stmts(body) if s.get('k') == 'return' and s.get('e')]
            if rets and all(reads_endian_member(g, prog, r['e'], depth + 1) for r in rets):
                return True
    return False


def run(ctx):
    units = [os.path.join(ir.VERIF, 'drivers', 'inst_streams.cpp')]
    lib = ir.library_units() if ctx.tier == 'thorough' else [u for u in ir.library_units() if os.path.basename(u) in
                                                             ('File.cpp', 'Socket.cpp', 'Http.cpp', 'WebSocket.cpp', 'HttpServer.cpp', 'TextFile.cpp')]
    prog = ir.load_units(units + lib, force_inst=units)
    ctx.use_program(prog)
    global PROG
    PROG = prog
    other_val = q.enum_value(prog, 'asl::Endian', 'ENDIAN_BIG')   # x86-64 build target is little-endian: ASL_OTHER_ENDIAN = ENDIAN_BIG

    # ---------------------------------------------------------------- R-UNITS
    n_sites = 0
    for f in prog.functions:
        sites = [e for e in fn_exprs(f) if is_raw_transfer(e)]
        if not sites:
            continue
        ctx.analysed(f)
        for e in sites:
            n_sites += 1
            ctx.evaluations += 1
            ptr, size = e['a'][0], e['a'][1]
            psz, pty, base = q.pointee_size(f, ptr)
            role = '%s(%s, %s)' % ((e.get('pq') or '').rsplit('::', 1)[-1], pe(ptr), pe(size))
            fn_name = f['pq']
            if psz is None or psz == 1:
                ctx.ok('R-UNITS', fn_name, role, fwhere(f, e['l']), 'pointee is %s (one byte or untyped): byte count is element count' % pty, nontrivial=False)
                continue
            szs = [x for x in sizeof_nodes(size) if x['v'] == psz]
            cv = const_val(size)
            if szs or (cv is not None and cv == psz):
                ctx.ok('R-UNITS', fn_name, role, fwhere(f, e['l']), 'pointee %s (%d bytes): count carries sizeof factor' % (pty, psz))
            else:
                ctx.violation('R-UNITS', fn_name, role, fwhere(f, e['l']),
                              'raw transfer of %s objects (%d bytes each) with byte count `%s` that has no sizeof(%s) factor: '
                              'elements are counted as bytes (instantiation %s)' % (pty, psz, pe(size), pty, f['q']))
    ctx.floor('R-UNITS', n_sites, 40)

    # ---------------------------------------------------------------- C16.layer
    ctx.floor('C16.layer File members', check_file_layer(ctx, prog), 2)

    # ---------------------------------------------------------------- scalar writers / readers
    n_scalar = 0
    for cls in STREAM_CLASSES:
        for opname, is_write in (('operator<<', True), ('operator>>', False)):
            fs = [f for f in prog.pattern(cls + '::' + opname) if f.get('inst')]
            for f in fs:
                if len(f['params']) != 1:
                    continue
                pt = T(f, f['params'][0]['t'])
                if not pt.get('ref'):
                    continue
                et = T(f, pt.get('to'))
                if not (et.get('int') or et.get('flt')) or not et.get('sz'):
                    continue
                ctx.analysed(f)
                n_scalar += 1
                check_scalar(ctx, prog, f, et, is_write, other_val)
    # non-template scalar readers of File/Socket (char, byte) and StreamBuffer writers: covered by R-UNITS
    ctx.floor('C16.scalar', n_scalar, 50)

    # ---------------------------------------------------------------- array writers
    n_arr = 0
    for cls in STREAM_CLASSES:
        for f in prog.pattern(cls + '::operator<<'):
            if len(f['params']) != 1:
                continue
            pt = T(f, T(f, f['params'][0]['t']).get('to'))
            if pt.get('recp') != 'asl::Array':
                continue
            ctx.analysed(f)
            n_arr += 1
            check_array_writer(ctx, prog, f, other_val)
    ctx.floor('C16.array', n_arr, 9)

    # ---------------------------------------------------------------- partial transfers of the raw socket/file primitives
    check_partial(ctx, prog)

    # ---------------------------------------------------------------- StreamBufferReader
    check_reader(ctx, prog, other_val)
    check_swap(ctx, prog)
    check_string_writers(ctx, prog)
    check_read_n(ctx, prog)
    check_file_read(ctx, prog)
    check_raw_scalars(ctx, prog)
    check_order_members(ctx, prog)
    check_buffer_alias(ctx, prog)
    check_widths(ctx, prog)
    return __doc__.split('\n\n', 1)[1]


def _linear(f, e, vals):
    """e as {symbol: coefficient} (symbols: var ids, 1 for the constant term) given vals {var id: linear form}; None if not linear"""
    e = strip(e)
    cv = const_val(e)
    if cv is not None:
        return {1: cv}
    k = e.get('k')
    if k == 'cast':
        return _linear(f, e['e'], vals)
    if k == 'var':
        if e['id'] in vals:
            return dict(vals[e['id']]) if vals[e['id']] is not None else None
        return None
    if k == 'bin' and e.get('op') in ('+', '-'):
        a, b = _linear(f, e['x'], vals), _linear(f, e['y'], vals)
        if a is None or b is None:
            return None
        out = dict(a)
        for sym, c in b.items():
            out[sym] = out.get(sym, 0) + (c if e['op'] == '+' else -c)
        return dict((s_, c) for s_, c in out.items() if c != 0)
    if k == 'un' and e.get('op') == '&' and strip_lv(e['e']).get('k') == 'idx':
        t = strip_lv(e['e'])
        a, b = _linear(f, t['b'], vals), _linear(f, t['i'], vals)
        if a is None or b is None:
            return None
        out = dict(a)
        for sym, c in b.items():
            out[sym] = out.get(sym, 0) + c
        return out
    return None


def partial_loop_verdict(ctx, prog, f, lp, nv, call):
    """Retry loop around one OS transfer call returning n (bytes moved).  With D = bytes moved so far, every local is
    init + c*D (c = +1 when the body adds n to it once, -1 when it subtracts n once, 0 when it is not written).  Decided:
    the buffer argument is buffer0 + D, the length argument is size0 - D, and the loop goes on exactly while D < size0
    (the continue conditions are evaluated on a grid of (D, size0))."""
    import bytesets
    buf_p, size_p = f['params'][0], f['params'][1]
    D = 'D'
    # linear forms before the loop: parameters are their own symbols; locals declared before the loop take their initialiser
    vals = {buf_p['id']: {buf_p['id']: 1}, size_p['id']: {size_p['id']: 1}}
    in_loop = set(id(x) for x in ir.walk_stmts(lp))
    for st in ir.walk_stmts(f['body']):
        if st.get('k') == 'decl' and id(st) not in in_loop and st.get('l', 0) <= lp.get('l', 0):
            for v in st['vars']:
                if v.get('init') is not None:
                    vals[v['id']] = _linear(f, v['init'], vals)
    # updates by n inside the loop
    coef = {}
    loop_exprs = list(ir.stmt_exprs(lp['body'])) + (list(walk_expr(lp['inc'])) if lp.get('inc') else [])
    for e in loop_exprs:
        tgt = None
        if e.get('k') == 'bin' and e.get('op', '').endswith('=') and e['op'] not in ('==', '!=', '<=', '>='):
            tgt = strip_lv(e['x'])
        elif e.get('k') == 'un' and e.get('op') in ('post++', 'pre++', 'post--', 'pre--'):
            tgt = strip_lv(e['e'])
        if tgt is None or tgt.get('k') != 'var' or tgt['id'] == nv['id']:
            continue
        vid = tgt['id']
        delta = None
        if e.get('k') == 'bin' and e['op'] in ('+=', '-='):
            r = _linear(f, e['y'], {nv['id']: {'n': 1}})
            if r == {'n': 1}:
                delta = 1 if e['op'] == '+=' else -1
        elif e.get('k') == 'bin' and e['op'] == '=':
            r = _linear(f, e['y'], {nv['id']: {'n': 1}, vid: {'self': 1}})
            if r is not None and r.get('self') == 1 and set(r) <= {'self', 'n'} and r.get('n') in (1, -1):
                delta = r['n']
        if delta is None or vid in coef:
            coef[vid] = None          # written in a way that is not one +/- n per iteration
        else:
            coef[vid] = delta
    ctx.evaluations += 3

    def at_progress(x):
        """linear form of expression x at progress D"""
        cur = {}
        for vid, lf in vals.items():
            if lf is None:
                cur[vid] = None
                continue
            c = coef.get(vid, 0)
            if c is None:
                cur[vid] = None
                continue
            g_ = dict(lf)
            if c:
                g_[D] = g_.get(D, 0) + c
            cur[vid] = g_
        return _linear(f, x, cur)
    buf, ln = at_progress(call['a'][1]), at_progress(call['a'][2])
    if buf is None or ln is None:
        return 'undecided', 'buffer / length argument of the transfer call is not a linear form of the parameters and the progress'
    want_buf, want_len = {buf_p['id']: 1, D: 1}, {size_p['id']: 1, D: -1}
    name = {buf_p['id']: buf_p['n'], size_p['id']: size_p['n'], D: 'transferred', 1: '1'}
    def show(lf):
        return ' + '.join('%s*%s' % (c, name.get(s_, s_)) for s_, c in sorted(lf.items(), key=str)) or '0'
    if buf != want_buf:
        return 'bad', 'the buffer argument is %s, expected %s' % (show(buf), show(want_buf))
    if ln != want_len:
        return 'bad', 'the length argument is %s, expected %s' % (show(ln), show(want_len))
    # continue conditions, evaluated after the updates of an iteration
    conds = []
    if lp.get('c') is not None:
        conds.append((lp['c'], True))
    body = lp['body']['s'] if lp['body'].get('k') == 'block' else [lp['body']]
    seen_update = False
    for st in body:
        es = list(ir.stmt_exprs(st))
        if any(e.get('k') == 'bin' and e.get('op') in ('+=', '-=', '=') and strip_lv(e['x']).get('k') == 'var' and coef.get(strip_lv(e['x'])['id']) for e in es):
            seen_update = True
            continue
        if seen_update and st.get('k') == 'if' and not st.get('else') and q.always_exits(st['then']) and any(x.get('k') in ('break', 'return') for x in ir.walk_stmts(st['then'])):
            conds.append((st['c'], False))
    if not conds:
        return 'undecided', 'no continue condition found for the retry loop'
    tracked = [vid for vid, lf in vals.items() if lf is not None and coef.get(vid, 0) is not None]
    try:
        for S in range(1, 7):
            for d in range(0, S + 1):
                env = {}
                for vid in tracked:
                    lf = vals[vid]
                    env[vid] = lf.get(1, 0) + lf.get(size_p['id'], 0) * S + lf.get(buf_p['id'], 0) * 1000 + coef.get(vid, 0) * d
                # a variable declared before the loop but written irregularly must not be consulted
                ev = bytesets.Evaluator(prog, f, env)
                ev.depth = 8          # do not read through single-assignment initialisers: values come from env only
                goes_on = all(bool(ev.ev(c)) == pol for c, pol in conds)
                ctx.evaluations += 1
                if goes_on != (d < S):
                    return 'bad', 'with %d of %d bytes transferred the loop %s' % (d, S, 'goes on (transfers past the total)' if goes_on else 'stops (returns early)')
    except bytesets.Undecidable as u:
        return 'undecided', 'continue condition not evaluable: %s' % u
    return 'ok', 'buffer = %s, length = %s, loop continues exactly while transferred < %s' % (show(buf), show(ln), size_p['n'])


def interp_partial(ctx, prog, f):
    """The blocking transfer loop interpreted (scansim) with the OS call replaced by a script of partial results: for a request
    of N bytes and every script of short counts, each OS call must be handed exactly the position reached so far and the
    number of bytes still missing, the loop must stop when N bytes are done (or when the OS call returns <= 0), and the value
    returned must be the number of bytes actually transferred.  -> ('ok', text) | ('bad', text) | None (not interpretable)"""
    import scansim
    scripts = {6: [[6], [1, 5], [2, 2, 2], [5, 1], [3, 0], [3, -1], [1, 1, 1, 1, 1, 1], [0], [-1]], 1: [[1], [0]], 3: [[2, 1], [1, 2]]}
    runs = 0
    try:
        for N, lst in scripts.items():
            for script in lst:
                calls = []
                it = iter(script)

                results = []

                kinds = []

                def osio(run, e, args, calls=calls, it=it, results=results, kinds=kinds):
                    kinds.append((e.get('fn') or '').split('::')[-1])
                    calls.append((args[1], args[2]))
                    try:
                        r_ = next(it)
                    except StopIteration:
                        r_ = -1             # a loop that retries after a result of 0 meets an error next
                    results.append(r_)
                    return r_
                bufs = {'B': [0] * (N + 8)}
                r = scansim.Run(prog, f, bufs, ptr_params={f['params'][0]['id']: ('P', 'B', 0)}, int_params={f['params'][1]['id']: N},
                                mems={'_blocking': 1, '_handle': 3, '_error': 0}, externs={'read': osio, 'recv': osio, 'send': osio, 'write': osio}, methods={'*': 'interp'})
                runs += 1
                got = r.run()
                done = 0
                for k, (ptr, cnt) in enumerate(calls):
                    if not (isinstance(ptr, tuple) and ptr[0] == 'P' and ptr[1] == 'B'):
                        return None
                    if ptr[2] != done or cnt != N - done:
                        return 'bad', 'with %d of %d bytes transferred the next call passes offset %s and count %s (script of OS results %s)' % (done, N, ptr[2], cnt, script)
                    res = results[k]
                    last = k + 1 == len(calls)
                    if res < 0:
                        if not last:
                            return 'bad', 'the loop calls the OS again after it returned %d (script %s)' % (res, script)
                        break
                    if res == 0 and not last and kinds[k] in ('read', 'recv'):
                        return 'bad', 'the loop calls the OS again after a receive returned 0 (script %s): 0 is the end of the stream - a peer that closed makes every further call return 0 at once, and the read never returns' % script
                    done += res
                    if done >= N and not last:
                        return 'bad', 'with %d of %d bytes transferred the loop goes on (script %s)' % (done, N, script)
                    if last and done < N and res > 0:
                        return 'bad', 'the loop stops after %d of %d bytes although the last OS call made progress (script of OS results %s): the rest of the data is never transferred' % (done, N, script)
                if not calls and N > 0:
                    return 'bad', 'no OS call is made for a request of %d bytes' % N
                if kinds and kinds[0] in ('send', 'write') and script == [N]:
                    # sending does not depend on what the receiving direction left behind: with the error code of an earlier
                    # receive still set (a zero-length read sets it) the same transfer must take place
                    calls2 = []

                    def osio2(run, e, args, calls2=calls2):
                        calls2.append((args[1], args[2]))
                        return args[2] if isinstance(args[2], int) else -1
                    r2 = scansim.Run(prog, f, {'B': [0] * (N + 8)}, ptr_params={f['params'][0]['id']: ('P', 'B', 0)}, int_params={f['params'][1]['id']: N},
                                     mems={'_blocking': 1, '_handle': 3, '_error': 2}, externs={'read': osio2, 'recv': osio2, 'send': osio2, 'write': osio2}, methods={'*': 'interp'})
                    got2 = r2.run()
                    runs += 1
                    if not calls2 or (isinstance(got2, int) and got2 != N):
                        return 'bad', 'with the error code of an earlier receive still set (`_error` != 0) a write of %d bytes %s: every later value written to a healthy connection is silently dropped' % (N, 'makes no OS call' if not calls2 else 'returns %s' % got2)
                if isinstance(got, int) and got != done:
                    return 'bad', 'after the partial results %s the function returns %s although %d byte(s) were transferred' % (results, got, done)
    except (scansim.Unsupported, scansim.OOB, TypeError, KeyError, IndexError):
        return None
    ctx.evaluations += runs
    return 'ok', 'interpreted with %d scripts of partial OS results: every retry is handed the position reached and the bytes still missing, stops at the total or at the first result <= 0, returns the bytes transferred' % runs


def check_partial(ctx, prog, rule='C16.partial', files=True):
    """The blocking read/write loops of Socket_ complete partial transfers: every retry passes the not-yet-transferred
    remainder (buffer position and byte count both advanced by what the OS call returned)."""
    found = 0
    for q_, sig in (('asl::Socket_::read', '(void *,int)'), ('asl::Socket_::write', '(const void *,int)')):
        for f in prog.fn(q_, sig):
            found += 1
            ctx.analysed(f)
            loops = [s_ for s_ in ir.walk_stmts(f['body']) if s_.get('k') in ('do', 'while', 'for')]
            ios = []
            for lp in loops:
                for st in ir.walk_stmts(lp['body']):
                    if st.get('k') == 'decl':
                        for v in st['vars']:
                            ini = strip(v.get('init') or {})
                            if ini.get('k') == 'call' and not ini.get('clsp') and ini.get('fn') in ('read', 'recv', 'send', 'write'):
                                ios.append((lp, v, ini))
            role = f['n'] + f['sig'] + ':retry passes the remainder'
            iv = interp_partial(ctx, prog, f)
            if iv is not None:
                if iv[0] == 'ok':
                    ctx.ok(rule, f['pq'], role, fwhere(f), iv[1])
                else:
                    ctx.violation(rule, f['pq'], role, fwhere(f), 'after a short transfer the retry does not pass exactly the remainder / stop exactly at the total: %s: following values are over-read/over-written, skipped, or the transfer returns early' % iv[1])
                continue
            if len(ios) != 1:
                ctx.undecided(rule, f['pq'], role, fwhere(f), 'no single OS transfer call inside a retry loop (found %d)' % len(ios))
                continue
            lp, nv, call = ios[0]
            verdict, text = partial_loop_verdict(ctx, prog, f, lp, nv, call)
            if verdict == 'ok':
                ctx.ok(rule, f['pq'], role, fwhere(f, call['l']), text)
            elif verdict == 'bad':
                ctx.violation(rule, f['pq'], role, fwhere(f, call['l']), 'after a short transfer the retry does not pass exactly the remainder / stop exactly at the total: %s (`%s`): following values are over-read/over-written, skipped, or the transfer returns early' % (text, pe(call)))
            else:
                ctx.undecided(rule, f['pq'], role, fwhere(f, call['l']), text)
    ctx.floor(rule, found, 2)
    if not files:
        return
    for q_, fn_, sig in (('asl::File::read', 'fread', '(void *,int)'), ('asl::File::write', 'fwrite', '(const void *,int)')):
        for f in prog.fn(q_, sig):
            ctx.analysed(f)
            cs = [e for e in fn_exprs(f) if e.get('k') == 'call' and e.get('fn') == fn_]
            okk = len(cs) == 1 and const_val(cs[0]['a'][1]) == 1 and strip(cs[0]['a'][2]).get('k') == 'var' and strip(cs[0]['a'][0]).get('k') == 'var'
            ctx.check(okk, 'R-UNITS', f['pq'], '%s(p, 1, n, file)' % fn_, fwhere(f), 'element size 1, count = byte count',
                      '%s does not transfer n items of size 1 from/to p' % q_)


def endian_values(prog):
    en = prog.enums.get('asl::Endian')
    if not en:
        raise AnalysisBroken('enum asl::Endian not found')
    return dict((c['n'], c['v']) for c in en['consts'])


def endian_bind(f, prog, val):
    def bind(e):
        if e.get('k') in ('mem', 'call') and reads_endian_member(f, prog, e, 0):
            return val
        return None
    return bind


def site_runs(prog, f, g, site, other_val):
    """{byte order name: True / False / None}: does `site` execute when the stream's byte-order member has that value"""
    out = {}
    rel = lambda c: any(w.get('k') in ('mem', 'call') and reads_endian_member(f, prog, w, 0) for w in walk_expr(q.expand(f, c, bools_only=True)))
    for name, val in endian_values(prog).items():
        ev = bounded.Bound(prog, f, {}, {}, bind=endian_bind(f, prog, val))
        out[(name, val)] = bounded.admitted3(ev, g.of(site), g, relevant=rel)
    return out


def swap_guard_verdict(prog, f, g, site, other_val):
    runs = site_runs(prog, f, g, site, other_val)
    if not any(isinstance(c, dict) and any(reads_endian_member(f, prog, w, 0) for w in walk_expr(q.expand(f, c, bools_only=True))) for c, _, _ in g.of(site)):
        return 'bad', 'byte swap is not guarded by a test of the stream byte-order member'
    for (name, val), r in sorted(runs.items()):
        want = (val == other_val)
        if r is None:
            return 'undecided', 'guards of the byte swap not evaluable for byte order %s' % name
        if r != want:
            return 'bad', ('bytes are swapped when the stream order is %s, which is the native order' % name) if r else ('bytes are not swapped when the stream order is %s, the non-native order' % name)
    return 'ok', ''


def check_scalar(ctx, prog, f, et, is_write, other_val):
    sz = et['sz']
    name = f['pq']
    inst = f['q'].split('::')[-1] + f['sig']
    raws = [e for e in fn_exprs(f) if is_raw_transfer(e)]
    g = q.Guarded(f)
    # exactly one raw transfer of sizeof(T) bytes runs, whatever the byte order is (sites on exclusive paths are fine)
    import bytesets
    problem = None
    und = None
    if not raws:
        problem = 'no raw transfer in a scalar stream operator'
    else:
        per_order = {}
        for r_ in raws:
            for key, v in site_runs(prog, f, g, r_, other_val).items():
                per_order.setdefault(key, []).append((r_, v))
        for key, lst in sorted(per_order.items()):
            if any(v is None for _, v in lst):
                und = 'guards of a raw transfer not evaluable'
                continue
            on = [r_ for r_, v in lst if v]
            if len(on) != 1:
                problem = '%d raw transfers run for byte order %s in a scalar stream operator (expected exactly one of %d bytes)' % (len(on), key[0], sz)
        for r_ in raws:
            try:
                cv = bytesets.Evaluator(prog, f).ev(r_['a'][1])
            except bytesets.Undecidable:
                cv = const_val(r_['a'][1])
            ctx.evaluations += 1
            if cv is None:
                und = und or 'byte count `%s` not evaluable' % pe(r_['a'][1])
            elif cv != sz:
                problem = 'transfers %s bytes for a %d-byte %s' % (cv, sz, et['s'])
    if problem:
        ctx.violation('C16.scalar.width', name, inst + ':width', fwhere(f, raws[0]['l'] if raws else None), problem)
    elif und:
        ctx.undecided('C16.scalar.width', name, inst + ':width', fwhere(f), und)
    else:
        ctx.ok('C16.scalar.width', name, inst + ':width', fwhere(f, raws[0]['l']), 'one transfer of %d bytes for a %d-byte %s on every path' % (sz, sz, et['s']))
    if sz == 1:
        return
    swaps = [e for e in fn_exprs(f) if e.get('k') == 'call' and e.get('pq') in ('asl::swapBytes', 'asl::bytesSwapped')]
    if not swaps and is_write:
        # no call of the swap helper: the bytes handed to write() are interpreted at cell level for every byte order
        import cellsim
        verdict = None
        for nm, val in sorted(endian_values(prog).items()):
            sim = cellsim.Sim(prog, f, f['params'][0]['id'], sz, bind=endian_bind(f, prog, val), sinks=('write',))
            try:
                sim.stmt(f['body'])
            except cellsim.Unsupported as u:
                verdict = ('undecided', 'body outside the interpreted fragment: %s' % u)
                break
            ctx.evaluations += 1
            want = [('in', sz - 1 - j) for j in range(sz)] if val == other_val else [('in', j) for j in range(sz)]
            if len(sim.written) != 1 or sim.written[0] != want:
                verdict = ('bad', 'with byte order %s the operator hands write() the bytes %s of the value, expected %s' % (nm, [[c[1] if c[0] == 'in' else '?' for c in w] for w in sim.written], [c[1] for c in want]))
                break
        if verdict is None:
            ctx.ok('C16.scalar.swap', name, inst + ':swap', fwhere(f), 'bytes handed to write(): reversed iff the order member is the non-native order (cell-level interpretation)')
        elif verdict[0] == 'bad':
            ctx.violation('C16.scalar.swap', name, inst + ':swap', fwhere(f), verdict[1])
        else:
            ctx.undecided('C16.scalar.swap', name, inst + ':swap', fwhere(f), verdict[1])
        return
    if len(swaps) != 1:
        ctx.violation('C16.scalar.swap', name, inst + ':swap', fwhere(f), '%d byte-swap calls in a %d-byte scalar stream operator (expected exactly one, under the byte-order test)' % (len(swaps), sz))
        return
    sw = swaps[0]
    # the swap must run exactly when the stream's byte-order member equals the non-native order: its guards (if / else /
    # ?: / early return, read through named booleans) are evaluated with the member bound to each enumerator
    verdict = swap_guard_verdict(prog, f, g, sw, other_val)
    ctx.evaluations += 3
    if verdict[0] == 'undecided':
        ctx.undecided('C16.scalar.swap', name, inst + ':swap', fwhere(f, sw['l']), verdict[1])
        return
    if verdict[0] == 'bad':
        ctx.violation('C16.scalar.swap', name, inst + ':swap', fwhere(f, sw['l']), verdict[1])
        return
    # ordering: writer swaps before the transfer, reader after it
    if len(raws) == 1:
        order = [id(x) for x in g.order]
        i_sw, i_raw = order.index(id(sw)), order.index(id(raws[0]))
        good = (i_sw < i_raw) if is_write else (i_raw < i_sw)
        ctx.check(good, 'C16.scalar.swap', name, inst + ':swap', fwhere(f, sw['l']),
                  'swap iff order member == non-native order, %s the transfer' % ('before' if is_write else 'after'),
                  'byte swap happens on the wrong side of the raw transfer')
    else:
        ctx.ok('C16.scalar.swap', name, inst + ':swap', fwhere(f, sw['l']), 'swap iff order member == non-native order')


def check_array_writer(ctx, prog, f, other_val):
    name = f['pq']
    inst = f['q'].split('::')[-1] + f['sig']
    et = None
    pt = T(f, T(f, f['params'][0]['t']).get('to'))
    # element type = type of operator[] result on the parameter; take it from the Array record name
    rec = pt.get('rec', '')
    g = q.Guarded(f)
    raws = [e for e in fn_exprs(f) if is_raw_transfer(e)]
    loops = [x for x in ir.walk_stmts(f['body']) if x.get('k') in ('for', 'while')]
    in_loop = set(id(e) for lp in loops for e in ir.stmt_exprs(lp['body']))
    elem_calls = [e for e in fn_exprs(f) if e.get('k') == 'call' and e.get('pq') == name and id(e) in in_loop]
    swaps_in_loop = [e for e in fn_exprs(f) if e.get('k') == 'call' and e.get('pq') in ('asl::swapBytes', 'asl::bytesSwapped') and id(e) in in_loop]
    mentions_order = any(reads_endian_member(f, prog, w, 0) for w in fn_exprs(f) if w.get('k') in ('mem', 'call'))
    if not mentions_order:
        # byte arrays have a single unconditional raw write
        if len(raws) == 1 and not loops:
            psz, pty, _ = q.pointee_size(f, raws[0]['a'][0])
            ctx.check(psz == 1, 'C16.array', name, inst + ':bytes', fwhere(f, raws[0]['l']), 'unconditional raw write of %s elements' % pty,
                      'unconditional raw write of %s elements wider than a byte: no byte-order handling' % pty)
            return
        if not raws and not loops:
            # the bytes are handed as a whole to a sibling member taking the same array type (write(const ByteArray&)): its single
            # raw write of (data(), length()) is the writer's
            pid_ = f['params'][0]['id']
            fwd = [e for e in fn_exprs(f) if e.get('k') == 'call' and len(e.get('a') or []) == 1 and strip_lv(e['a'][0]).get('k') == 'var' and strip_lv(e['a'][0]).get('id') == pid_ and
                   e.get('clsp') == f.get('clsp') and (e.get('obj') is None or strip_lv(e['obj']).get('k') in ('this', None) or (strip_lv(e['obj']).get('k') == 'un' and strip_lv(strip_lv(e['obj'])['e']).get('k') == 'this'))]
            if len(fwd) == 1:
                hs = [h for h in prog.fn(fwd[0]['fn'], fwd[0].get('sig')) if h.get('body') and len(h['params']) == 1]
                if hs:
                    h = hs[0]
                    hraws = [e for e in fn_exprs(h) if is_raw_transfer(e)]
                    hloops = [x for x in ir.walk_stmts(h['body']) if x.get('k') in ('for', 'while', 'do')]
                    if len(hraws) == 1 and not hloops:
                        hp = h['params'][0]['id']
                        from_param = all(any(w.get('k') == 'var' and w.get('id') == hp for w in walk_expr(a)) for a in hraws[0]['a'][:2])
                        psz, pty, _ = q.pointee_size(h, hraws[0]['a'][0])
                        ctx.check(psz == 1 and from_param, 'C16.array', name, inst + ':bytes', fwhere(f, fwd[0]['l']), 'forwarded whole to %s, which makes one raw write of its %s elements' % (h['pq'], pty),
                                  'the bytes are forwarded to %s, whose raw write does not transfer exactly the elements of its argument' % h['pq'])
                        return
        ctx.undecided('C16.array', name, inst + ':shape', fwhere(f), 'array writer is neither a single raw write of bytes nor selects on the byte order')
        return
    ctx.evaluations += 1

    def runs(site):
        r = site_runs(prog, f, g, site, other_val)
        other = [v for (n_, val), v in r.items() if val == other_val]
        native = [v for (n_, val), v in r.items() if val != other_val]
        return other, native
    where_ = fwhere(f)
    verdict = None          # ('ok' | 'bad' | 'undecided', text)
    sites = elem_calls or swaps_in_loop
    if not sites:
        # no element-wise handling at all: the raw transfer runs whatever the order is?
        bad = [e for e in raws if any(v is not False for v in runs(e)[0])]
        if bad:
            verdict = ('bad', 'non-native order branch neither writes every element through the scalar operator nor swaps every element before a bulk transfer')
        else:
            verdict = ('undecided', 'no element-wise path recognised for the non-native order')
    else:
        for e in sites:
            other, native = runs(e)
            if None in other or None in native:
                verdict = verdict or ('undecided', 'guards of the element-wise path not evaluable')
            elif not all(other):
                verdict = ('bad', 'the element-wise (swapping) path does not run when the stream order is the non-native one')
            elif any(native):
                verdict = ('bad', 'the element-wise (swapping) path also runs for the native order: elements are swapped when they must not be')
        if verdict is None:
            kind = 'element-wise loop through the scalar operator' if elem_calls else 'every element swapped in a loop, then one bulk transfer (byte count by R-UNITS, source untouched by :source-immutable)'
            if not elem_calls:
                bulk = [e for e in raws if all(v is True for v in runs(e)[0])]
                if len(bulk) != 1:
                    verdict = ('bad', 'non-native order branch neither writes every element through the scalar operator nor swaps every element before a bulk transfer')
            verdict = verdict or ('ok', 'non-native order: ' + kind)
    # when the writer spells its loops out (no foreach macro) it is also interpreted as a whole on an array of 70 distinct
    # element tokens for both byte orders: the stream must receive every element exactly once, in order, swapped iff the order
    # is the non-native one
    if verdict[0] != 'bad':
        iv = interp_array_writer(prog, f, other_val)
        ctx.evaluations += 2
        if iv is not None and iv[0] == 'bad':
            verdict = iv
        elif iv is not None and iv[0] == 'ok' and verdict[0] == 'undecided':
            verdict = iv
    if verdict[0] == 'ok':
        ctx.ok('C16.array', name, inst + ':swapped-branch', where_, verdict[1])
    elif verdict[0] == 'bad':
        ctx.violation('C16.array', name, inst + ':swapped-branch', where_, verdict[1])
    else:
        ctx.undecided('C16.array', name, inst + ':swapped-branch', where_, verdict[1])
    # the writer must not modify the caller's array: a local Array copy-constructed from the parameter shares its storage
    pid = f['params'][0]['id']
    shared = set([pid])
    for st in ir.walk_stmts(f['body']):
        if st.get('k') == 'decl':
            for v in st['vars']:
                ini = strip(v.get('init') or {})
                if ini.get('k') == 'construct' and ini.get('copy') and ini.get('a') and strip(ini['a'][0]).get('k') == 'var' and strip(ini['a'][0]).get('id') in shared:
                    shared.add(v['id'])
    mut = []
    for e in fn_exprs(f):
        if e.get('k') == 'call' and e.get('clsp') == 'asl::Array' and e.get('obj') is not None and 'const' not in (e.get('sig') or '').split(')')[-1]:
            o = strip(e['obj'])
            if o.get('k') == 'var' and o.get('id') in shared and (e.get('pq') or '').split('::')[-1] in ('operator[]', 'data', 'ptr', 'operator*', 'first', 'last', 'all', 'sort', 'reverse'):
                mut.append(e)
    ctx.check(not mut, 'C16.array', name, inst + ':source-immutable', fwhere(f, mut[0]['l'] if mut else None),
              'the writer only reads the caller\'s array', 'the writer obtains mutable access (`%s`) to storage shared with the caller\'s array: '
              'a handle copy is not a deep copy, so swapping in place corrupts the source for later writes' % (pe(mut[0]) if mut else ''))
    # native order: exactly one raw transfer runs, and (when elements go through the scalar operator) it runs only then
    nat = []
    und = False
    for e in raws:
        other, native = runs(e)
        if None in native or None in other:
            und = True
        if all(v is True for v in native):
            nat.append((e, other))
    if und:
        ctx.undecided('C16.array', name, inst + ':native-branch', where_, 'guards of a raw transfer not evaluable')
    else:
        okn = len(nat) == 1 and (not elem_calls or not any(nat[0][1]))
        ctx.check(okn, 'C16.array', name, inst + ':native-branch', where_,
                  'native order: one raw transfer (its byte count is decided by R-UNITS)', 'native order runs %d raw transfers%s' % (len(nat), '' if len(nat) != 1 else ', and the same transfer also runs after the element-wise path'))


def provenance(f, e, ptr_field):
    """(byte index -> shift) map of an expression assembling a value from ptr_field[k] bytes with << and |; None if not of that shape."""
    e = strip(e)
    k = e.get('k')
    if k == 'bin' and e['op'] == '|':
        a, b = provenance(f, e['x'], ptr_field), provenance(f, e['y'], ptr_field)
        if a is None or b is None:
            return None
        for i in b:
            if i in a:
                return None
        a.update(b)
        return a
    if k == 'bin' and e['op'] == '<<':
        a = provenance(f, e['x'], ptr_field)
        s = const_val(e['y'])
        if a is None or s is None or len(a) != 1:
            return None
        (i, s0), = a.items()
        return {i: s0 + s}
    if k == 'idx':
        b = strip(e['b'])
        i = const_val(e['i'])
        if b.get('k') == 'mem' and b.get('f') == ptr_field and i is not None:
            return {i: 0}
    return None


def check_string_writers(ctx, prog):
    """C16.string: `stream << String` writes exactly length() bytes starting at the first character, also when the String holds
    a NUL byte (a String is a byte container: StreamBuffer, File and Socket must agree).  The operator is interpreted with the
    text "ab\\0cd" (length 5) and the primitive write(ptr, n) replaced by a recorder."""
    import scansim
    n = 0
    for cls in STREAM_CLASSES:
        for f in prog.pattern(cls + '::operator<<'):
            if not f.get('body') or len(f['params']) != 1:
                continue
            pt = T(f, T(f, f['params'][0]['t']).get('to') or 0)
            if pt.get('rec') != 'asl::String':
                continue
            n += 1
            ctx.analysed(f)
            role = '%s<<(const String&):writes length() bytes' % cls.split('::')[-1]
            text = [97, 98, 0, 99, 100]
            rec = []

            def writer(run, e, args, rec=rec):
                rec.append(args)
                return args[1] if len(args) > 1 and isinstance(args[1], int) else 0
            pid = f['params'][0]['id']
            bufs = {('O', pid): list(text) + [0]}
            r = scansim.Run(prog, f, bufs, objects=True, methods={'write': writer, '*': 'interp'})
            r.objlen[pid] = len(text)
            r.strobjs.add(pid)
            try:
                r.run()
            except (scansim.Unsupported, scansim.OOB, TypeError, KeyError, IndexError) as u:
                ctx.undecided('C16.string', f['pq'], role, fwhere(f), 'outside the interpreted fragment: %s' % u)
                continue
            total = 0
            ok = bool(rec)
            pos = 0
            for a in rec:
                if not (len(a) >= 2 and isinstance(a[0], tuple) and a[0][0] == 'P' and a[0][1] == ('O', pid) and isinstance(a[1], int)) or a[0][2] != pos:
                    ok = False
                    break
                pos += a[1]
                total += a[1]
            ctx.evaluations += 1
            ctx.check(ok and total == len(text), 'C16.string', f['pq'], role, fwhere(f), 'write(first character, length()) for a 5-byte String with an embedded NUL',
                      '%s writes %s byte(s) of the 5-byte String "ab\\0cd" (%s): the text is cut at an embedded NUL (a strlen-based overload was used), the stream is no longer the concatenation of the values written and every later value is read back from the wrong offset' % (
                          f['q'], total, 'writes: %s' % [(a[0][2] if isinstance(a[0], tuple) else '?', a[1]) for a in rec if len(a) >= 2]))
    ctx.floor('C16.string', n, 2)


def abs_reader(ctx, prog, f, k, orders):
    """read2/4/8 decided by abstract interpretation of the whole body (absim): the k buffered bytes are symbolic, the byte-order
    member is bound to each enumerator in turn; the value stored through the reference parameter must carry, bit for bit, byte i
    of the buffer at shift 8*(k-1-i) (big-endian) or 8*i (little-endian / native on this host), and the cursor must have
    advanced by exactly k.  -> True when every byte order was decided (verdicts recorded)"""
    import absim, scansim
    inst = f['q'].split('::')[-1]
    verdicts = []
    for name, val, big_endian in orders:
        sources = [absim.Source('b%d' % i, 8, 0, 255) for i in range(k)]

        def run_fn(values, val=val):
            bufs = {'IN': list(values) + [0] * 8, 'X': [0]}
            r = scansim.Run(prog, f, bufs, mems={'_ptr': ('P', 'IN', 0), '_end': ('P', 'IN', k), '_endian': val}, methods={'*': 'interp'})
            r.transparent = ('asl::AsOther',)
            r.boxed[f['params'][0]['id']] = 'X'
            r.run()
            p_ = r.mems.get('_ptr')
            return [bufs['X'][0], p_[2] if isinstance(p_, tuple) else -1]

        def ref_fn(values, big_endian=big_endian):
            v = 0
            for i, b in enumerate(values):
                v = v | (b << (8 * (k - 1 - i) if big_endian else 8 * i))
            return [v, k]
        leaves, bad, und = absim.explore(sources, run_fn, ref_fn, absim.eq_out(8 * k), max_leaves=16)
        ctx.evaluations += len(leaves) + len(und)
        if und:
            return False
        v = None
        for assign, values, got, want in bad:
            w = absim.confirm(sources, assign, run_fn, ref_fn, 8 * k)
            if w is None:
                return False
            v = w
            break
        verdicts.append((name, v))
    for name, v in verdicts:
        role = inst + ':%s table' % name
        if v is None:
            ctx.ok('C16.reader', f['pq'], role, fwhere(f), 'abstract interpretation: byte i of the buffer lands at shift %s, cursor +%d' % ('8*(%d-i)' % (k - 1) if name.startswith('big') else '8*i', k))
        else:
            vals, got, want = v
            if got[1] != want[1]:
                ctx.violation('C16.reader', f['pq'], inst + ':advance', fwhere(f), 'with byte order %s the cursor advances by %s bytes, not by exactly %d' % (name, got[1], k))
            else:
                ctx.violation('C16.reader', f['pq'], role, fwhere(f), 'with byte order %s the buffered bytes %s are read as 0x%x, expected 0x%x' % (
                    name, absim.hexs(vals, 8), got[0] & ((1 << (8 * k)) - 1) if isinstance(got[0], int) else 0, want[0]))
    return True


STDIO_OUT = ('fwrite', 'fputc', 'fputs', 'fprintf', 'vfprintf', 'putc', 'fputwc')
STDIO_IN = ('fread', 'fgetc', 'fgets', 'getc', 'ungetc', 'fscanf')
RAW_IO = ('write', 'read', 'pwrite', 'pread', 'writev', 'readv', '_write', '_read', 'WriteFile', 'ReadFile')


def check_file_layer(ctx, prog):
    """C16.layer: File keeps its bytes in a stdio stream.  Values written one after the other reach the file in that order only
    if they all go through the stream's buffer: a member that writes a block with write(2) on the stream's descriptor while
    earlier bytes are still in the buffer puts the block *before* them (same length, permuted bytes); a raw read skips bytes
    the stream has already buffered.  For every member of File: a raw transfer on the descriptor is reached only after the
    stream was flushed (output) / must not occur at all (input, the read-ahead cannot be given back)."""
    n = 0
    for f in prog.functions:
        if f.get('clsp') != 'asl::File' or not f.get('body') or f.get('implicit'):
            continue
        calls = [e for e in fn_exprs(f) if e.get('k') == 'call' and not e.get('clsp')]
        names = [(e.get('fn') or '').lstrip(':') for e in calls]
        if not any(x in STDIO_OUT + STDIO_IN + RAW_IO for x in names):
            continue
        n += 1
        ctx.analysed(f)
        role = '%s%s:bytes go through the stdio stream in the order written' % (f['n'], f.get('sig') or '')
        raws = [e for e in calls if (e.get('fn') or '').lstrip(':') in RAW_IO]
        if not raws:
            ctx.ok('C16.layer', f['pq'], role, fwhere(f), 'stdio transfers only, no raw transfer on the descriptor')
            continue
        bad = []
        cfg = cfgm.CFG(f)

        def step(nd, st):
            if nd.kind == 'ev' and nd.e is not None and nd.e.get('k') == 'call' and not nd.e.get('clsp'):
                nm = (nd.e.get('fn') or '').lstrip(':')
                if nm == 'fflush':
                    return True
                if nm in STDIO_OUT:
                    return False
                if nm in RAW_IO:
                    if nm in ('read', 'pread', 'readv', '_read', 'ReadFile') or not st:
                        bad.append(nd.e)
            return st
        cfgm.dataflow(cfg, False, step)
        ctx.check(not bad, 'C16.layer', f['pq'], role, fwhere(f, bad[0].get('l') if bad else None), 'every raw write on the descriptor follows a flush of the stream',
                  '%s transfers bytes with `%s` on the descriptor of the stdio stream without flushing the stream first: bytes written earlier through the buffer reach the file *after* this block (values written in sequence are read back permuted)' % (f['pq'], pe(bad[0]) if bad else ''))
    return n


def check_reader(ctx, prog, other_val):
    cls = 'asl::StreamBufferReader'
    big = q.enum_value(prog, 'asl::Endian', 'ENDIAN_BIG')
    found = 0
    for k in (2, 4, 8):
        fs = prog.pattern('%s::read%d' % (cls, k))
        for f in fs:
            found += 1
            ctx.analysed(f)
            inst = f['q'].split('::')[-1]
            # the value handed to the AsOther<unsigned-k, T> converter, interpreted once per byte order: which source byte
            # lands at which shift (byteprov: byte-provenance domain, control resolved with the byte-order member bound)
            import byteprov
            little, native = q.enum_value(prog, 'asl::Endian', 'ENDIAN_LITTLE'), q.enum_value(prog, 'asl::Endian', 'ENDIAN_NATIVE')
            decided = False
            try:
                decided = abs_reader(ctx, prog, f, k, (('big-endian', big, True), ('little-endian', little, False), ('native (little-endian host)', native, False)))
            except Exception as ex_:
                ctx.info.setdefault('reader_interpretation_fallback', []).append('%s: %s: %s' % (f['q'], type(ex_).__name__, ex_))
                decided = False
            if decided:
                pt = T(f, T(f, f['params'][0]['t']).get('to'))
                ctx.check(pt.get('sz') == k, 'C16.reader', f['pq'], inst + ':target width', fwhere(f), '%s has %d bytes' % (pt.get('s'), k),
                          'read%d used for %s of %s bytes' % (k, pt.get('s'), pt.get('sz')))
                continue
            convs = [v for s_ in ir.walk_stmts(f['body']) if s_.get('k') == 'decl' for v in s_['vars'] if 'AsOther' in (T(f, v['t']).get('rec') or '') and strip(v.get('init') or {}).get('k') == 'construct' and len(strip(v['init'])['a']) == 1]
            if len(convs) != 1:
                ctx.undecided('C16.reader', f['pq'], inst + ':shape', fwhere(f), 'no single AsOther<> conversion of the assembled value')
                continue
            arg = strip(convs[0]['init'])['a'][0]
            want_b = {i: 8 * (k - 1 - i) for i in range(k)}
            want_l = {i: 8 * i for i in range(k)}
            is_src = lambda e: e.get('k') == 'mem' and e.get('f') == '_ptr'
            byteprov.assembled.last_advance = None
            for name, val, want in (('big-endian', big, want_b), ('little-endian', little, want_l), ('native (little-endian host)', native, want_l)):
                bind = lambda e, val=val: val if (e.get('k') == 'mem' and 'endian' in e.get('f', '').lower()) else None
                ctx.evaluations += k
                try:
                    got, narrow = byteprov.assembled(prog, f, is_src, bind, lambda it: arg)
                except byteprov.Top as why:
                    ctx.undecided('C16.reader', f['pq'], inst + ':%s table' % name, fwhere(f, convs[0]['l']), 'assembly not resolved to source bytes: %s' % why)
                    continue
                ctx.check(got == want, 'C16.reader', f['pq'], inst + ':%s table' % name, fwhere(f, convs[0]['l']), 'bytes %s' % got,
                          'with byte order %s the value is assembled as (byte index: shift) %s, expected %s' % (name, got, want))
                ctx.check(not narrow, 'C16.reader', f['pq'], inst + ':shift width (%s)' % name, fwhere(f, convs[0]['l']), 'all shifted operands are wide enough',
                          'operand narrower than its shift: %s' % narrow)
            # cursor advance: total of `_ptr += n` along the interpreted path (helpers included)
            adv_total = getattr(byteprov.assembled, 'last_advance', None)
            if adv_total is None:
                ctx.undecided('C16.reader', f['pq'], inst + ':advance', fwhere(f), 'cursor advance not interpreted')
            else:
                ctx.check(adv_total == k, 'C16.reader', f['pq'], inst + ':advance', fwhere(f), 'cursor advances by %d' % k, 'cursor advances by %s bytes, not by exactly %d' % (adv_total, k))
            # destination type has k bytes
            pt = T(f, T(f, f['params'][0]['t']).get('to'))
            ctx.check(pt.get('sz') == k, 'C16.reader', f['pq'], inst + ':target width', fwhere(f), '%s has %d bytes' % (pt.get('s'), k),
                      'read%d used for %s of %s bytes' % (k, pt.get('s'), pt.get('sz')))
    ctx.floor('C16.reader', found, 8)
    # AsOther copies sizeof(T) bytes both ways between equal-sized types
    n = 0
    for f in prog.pattern('asl::AsOther::other') + prog.pattern('asl::AsOther::AsOther'):
        n += 1
        ctx.analysed(f)
        for e in fn_exprs(f):
            if e.get('k') == 'call' and (e.get('fn') or '') == 'memcpy':
                rec = prog.records.get(f['cls'])
                bsz = None
                if rec:
                    for fld in rec['fields']:
                        if fld['n'] == 'b':
                            bsz = T(rec, fld['t']).get('sz')
                cv = const_val(e['a'][2])
                other_sz = None
                for a in e['a'][:2]:
                    psz, pty, base = q.pointee_size(f, a)
                    if psz and psz != 1:
                        other_sz = psz
                ctx.check(cv == bsz and (other_sz is None or other_sz == cv), 'C16.reader', f['pq'], f['q'] + ':memcpy', fwhere(f, e['l']),
                          'copies %s bytes between a %s-byte buffer and a %s-byte object' % (cv, bsz, other_sz),
                          'copies %s bytes between a %s-byte buffer and a %s-byte object' % (cv, bsz, other_sz))
    ctx.floor('C16.reader.AsOther', n, 6)


def check_swap(ctx, prog):
    """swapBytes<T>: two memcpy of sizeof(T) around a loop i in [0,n) with by[i] = bx[n-i-1], n = sizeof(T)."""
    fs = [f for f in prog.pattern('asl::swapBytes') if f.get('body') and (f.get('inst') or not f.get('tmpl'))]
    fs = [f for f in fs if f.get('params') and T(f, f['params'][0]['t']).get('ref')]
    ctx.floor('C16.swap', len(fs), 4)
    for f in fs:
        ctx.analysed(f)
        inst = f['q'].split('::')[-1] + (f.get('sig') or '' if not f.get('inst') else '')
        pt = T(f, T(f, f['params'][0]['t']).get('to'))
        sz = pt.get('sz')
        if pt.get('rec'):
            # AsBytes<T>: the union's size
            pass
        # interpreted at cell level (cellsim): which byte of the argument each byte of the result holds, for every value
        import cellsim
        ctx.evaluations += sz or 0
        try:
            perm = cellsim.permutation(prog, f, f['params'][0]['id'], sz)
        except cellsim.Unsupported as u:
            msg = str(u)
            if msg.startswith('OOB:') or msg.startswith('UNDEF:'):
                ctx.violation('C16.swap', f['pq'], inst + ':reversal', fwhere(f), 'swapBytes<%s>: %s' % (pt.get('s'), msg.split(':', 1)[1]))
                continue
            # arithmetic implementation (shifts and masks on the value itself): bit provenance of the value assigned back
            pid = f['params'][0]['id']
            stores = [e for e in fn_exprs(f) if e.get('k') == 'bin' and e.get('op') == '=' and strip_lv(e['x']).get('id') == pid]
            if len(stores) == 1 and sz and sz * 8 <= bits.W and pt.get('int'):
                env = bits.Env(f, through_locals=True, prog=prog)
                env.vars[pid] = bits.var_bits(pid, sz * 8)
                # reads of the parameter promote like its type: the stored vector is extended by the casts of the expression
                got = env.eval(stores[0]['y'])[:sz * 8]
                want_bits = [(pid, 8 * (sz - 1 - (b // 8)) + (b % 8)) for b in range(sz * 8)]
                ctx.evaluations += sz * 8
                delegates = [e for e in fn_exprs(f) if e.get('k') == 'call' and e.get('pq') == 'asl::swapBytes']
                if 'X' in got and delegates:
                    ctx.ok('C16.swap', f['pq'], inst + ':reversal', fwhere(f), 'delegates to %s%s through a same-size copy' % (delegates[0].get('fn'), delegates[0].get('sig') or ''), nontrivial=False)
                elif 'X' in got and not any(g_ != w_ and g_ != 'X' for g_, w_ in zip(got, want_bits)):
                    ctx.undecided('C16.swap', f['pq'], inst + ':reversal', fwhere(f), 'assigned value not resolved to bits of the argument: [%s]' % bits.show(got, {pid: 'x'}, sz * 8))
                else:
                    ctx.check(got == want_bits, 'C16.swap', f['pq'], inst + ':reversal', fwhere(f, stores[0].get('l')), 'bit provenance of `%s` is the byte reversal' % pe(stores[0]['y']),
                              'swapBytes(%s&) assigns `%s` = [%s]: not the byte reversal of the argument for every value (M = mix of two argument bits, e.g. a smeared sign bit)' % (pt.get('s'), pe(stores[0]['y']), bits.show(got, {pid: 'x'}, sz * 8)))
                continue
            calls = [e for e in fn_exprs(f) if e.get('k') == 'call' and e.get('pq') == 'asl::swapBytes']
            if calls and not stores[1:]:
                # delegates to another overload through a same-size unsigned copy (checked there)
                ctx.ok('C16.swap', f['pq'], inst + ':reversal', fwhere(f), 'delegates to %s' % calls[0].get('fn'), nontrivial=False)
                continue
            ctx.undecided('C16.swap', f['pq'], inst + ':reversal', fwhere(f), 'body outside the interpreted fragment: %s' % msg)
            continue
        want = [sz - 1 - j for j in range(sz)]
        ctx.check(perm == want, 'C16.swap', f['pq'], inst + ':reversal', fwhere(f), 'result byte j = argument byte %d - j for all %d bytes' % (sz - 1, sz),
                  'swapBytes<%s> leaves argument bytes in the order %s, expected the full reversal %s' % (pt.get('s'), perm, want))


def affine(e, var_id):
    """e as a*i + b over the loop variable i (ints only); None if not affine."""
    v = const_val(e)
    e = strip(e)
    if v is None:
        v = const_val(e)
    if v is not None and not any(x.get('k') == 'var' and x.get('id') == var_id for x in walk_expr(e)):
        return (0, v)
    if e.get('k') == 'var':
        if e.get('id') == var_id:
            return (1, 0)
        return None
    if e.get('k') == 'bin' and e['op'] in ('+', '-'):
        a, b = affine(e['x'], var_id), affine(e['y'], var_id)
        if a is None or b is None:
            return None
        return (a[0] + b[0], a[1] + b[1]) if e['op'] == '+' else (a[0] - b[0], a[1] - b[1])
    return None


def check_read_n(ctx, prog):
    """C16.readn: StreamBufferReader::read(n) - the only way to read a byte array or string back from a buffer - returns exactly
    the next n bytes and advances by n; only a negative n means "everything left".  Interpreted (scansim) on a 5-byte buffer
    from position 1 for n = -1, 0, 1, 2, 4: a zero-length field must consume nothing (the values after it are read from the
    right place)."""
    import scansim
    fs = [g for g in prog.fn('asl::StreamBufferReader::read', '(int)') if g.get('body')]
    if not fs:
        raise AnalysisBroken('anchor StreamBufferReader::read(int) not found')
    f = fs[0]
    ctx.analysed(f)
    role = 'StreamBufferReader::read(n):n bytes returned, position advanced by n'
    data = [10, 20, 30, 40, 50]
    bad = und = None
    for n in (-1, 0, 1, 2, 4):
        bufs = {'BUF': list(data)}
        mems = {'_ptr': ('P', 'BUF', 1), '_end': ('P', 'BUF', 5)}
        r = scansim.Run(prog, f, bufs, int_params={f['params'][0]['id']: n}, mems=mems, methods={'*': 'interp'}, objects=True)
        ctx.evaluations += 1
        try:
            got = r.run()
        except scansim.OOB as o:
            bad = 'read(%d) accesses memory outside the buffer: %s' % (n, o)
            break
        except (scansim.Unsupported, TypeError, KeyError) as u:
            und = str(u)
            break
        want = data[1:] if n < 0 else data[1:1 + n]
        out = bufs.get(got[1]) if isinstance(got, tuple) and len(got) == 3 and got[0] == 'P' else None
        pos = mems.get('_ptr')
        if out is None or not isinstance(pos, tuple):
            und = 'result of read(%d) is not a modelled array' % n
            break
        if [x & 255 if isinstance(x, int) else x for x in out] != want or pos != ('P', 'BUF', 1 + len(want)):
            bad = 'read(%d) on a buffer with 4 bytes left returns %d byte(s) and advances by %s, expected %d and %d: %s' % (
                n, len(out), pos[2] - 1, len(want), len(want), 'a zero-length array or string field swallows the rest of the buffer and every later value is read from the wrong place' if n == 0 else 'the field is not read back as written')
            break
    if und:
        ctx.undecided('C16.readn', f['pq'], role, fwhere(f), 'outside the interpreted fragment: %s' % und)
    else:
        ctx.check(bad is None, 'C16.readn', f['pq'], role, fwhere(f), 'interpreted for n = -1, 0, 1, 2, 4', bad or '')


def check_file_read(ctx, prog):
    """C16.fileread: File::read(p, n) - the primitive under every File >> value - stores the next n bytes of the file whatever
    their values are and returns how many it stored (0 at end of file).  Interpreted (scansim) with stdio replaced by a model
    file holding ff 00 7f 80 1a 0a: byte-wise reads, one read of everything, a read across the end, a read at the end."""
    import scansim
    fs = [g for g in prog.fn('asl::File::read', '(void *,int)') if g.get('body')]
    if not fs:
        raise AnalysisBroken('anchor File::read(void*, int) not found')
    f = fs[0]
    ctx.analysed(f)
    role = 'File::read(p, n):next n bytes stored whatever their values'
    content = [0xff, 0x00, 0x7f, 0x80, 0x1a, 0x0a]
    bad = und = None
    for plan in ([1, 1, 1, 1, 1, 1, 1], [6, 1], [4, 4], [2, 2, 2]):
        pos = [0]

        def fread(run, e, args):
            dst, size, cnt = args[0], args[1], args[2]
            if not (isinstance(dst, tuple) and dst[0] == 'P' and isinstance(size, int) and isinstance(cnt, int)) or size < 1:
                raise scansim.Unsupported('fread arguments')
            k = max(0, min(size * cnt, len(content) - pos[0])) // size * size
            for j in range(k):
                run.store(('P', dst[1], dst[2] + j), content[pos[0] + j] - 256 if content[pos[0] + j] > 127 else content[pos[0] + j], e.get('l'))
            pos[0] += k
            return k // size

        def getc(run, e, args):
            if pos[0] >= len(content):
                return -1
            pos[0] += 1
            return content[pos[0] - 1]
        for n in plan:
            before = pos[0]
            bufs = {'OUT': [0x55] * 8}
            r = scansim.Run(prog, f, bufs, ptr_params={f['params'][0]['id']: ('P', 'OUT', 0)}, int_params={f['params'][1]['id']: n}, mems={'_file': ('P', 'FILE', 0)},
                            externs={'fread': fread, 'getc': getc, 'fgetc': getc, 'getc_unlocked': getc}, methods={'*': 'interp'})
            ctx.evaluations += 1
            try:
                got = r.run()
            except scansim.OOB as o:
                bad = 'read(p, %d) at offset %d writes outside the destination: %s' % (n, before, o)
                break
            except (scansim.Unsupported, TypeError, KeyError) as u:
                und = str(u)
                break
            want = content[before:before + n]
            stored = [x & 255 for x in bufs['OUT'][:len(want)]]
            if got != len(want) or stored != want or pos[0] != before + len(want) or any(x != 0x55 for x in bufs['OUT'][len(want):]):
                bad = 'read(p, %d) at offset %d of a file holding %s returns %s and stores %s (file position %d), expected %d and %s: a byte of that value is not read back' % (
                    n, before, ' '.join('%02x' % x for x in content), got, ' '.join('%02x' % x for x in stored) or 'nothing', pos[0], len(want), ' '.join('%02x' % x for x in want) or 'nothing')
                break
        if bad or und:
            break
    if und:
        ctx.undecided('C16.fileread', f['pq'], role, fwhere(f), 'outside the interpreted fragment: %s' % und)
    else:
        ctx.check(bad is None, 'C16.fileread', f['pq'], role, fwhere(f), 'interpreted against a model file for byte-wise, whole and over-long reads', bad or '')


def check_raw_scalars(ctx, prog):
    """C16.rawscalar: a multi-byte scalar crosses the stream only through the byte-order aware scalar operators.  In every member
    of the stream classes other than those operators (string and array readers / writers, helpers), a raw read()/write() whose
    buffer is the address of a single multi-byte scalar (`read(&n, sizeof(n))` for a length prefix) bypasses the byte order
    unless the same function swaps that variable under the byte-order test; the sibling classes read the prefix with `>> n`."""
    n = 0
    for f in prog.functions:
        if f.get('clsp') not in STREAM_CLASSES or not f.get('body'):
            continue
        # the scalar operators themselves are decided by C16.scalar.*
        if f['n'] in ('operator<<', 'operator>>', 'read', 'write') and len(f['params']) == 1:
            pt = T(f, f['params'][0]['t'])
            et = T(f, pt.get('to')) if pt.get('ref') else pt
            if (et.get('int') or et.get('flt')) and not et.get('ptr'):
                continue
        if f['n'] in ('read', 'write') and len(f['params']) == 2:
            continue                    # the raw primitives
        for e in fn_exprs(f):
            if not is_raw_transfer(e):
                continue
            a0 = strip(e['a'][0])
            while a0.get('k') in ('cast', 'paren'):
                a0 = strip(a0['e'])
            if not (a0.get('k') == 'un' and a0.get('op') == '&'):
                continue
            tgt = strip_lv(a0['e'])
            tt = T(f, tgt.get('dt') or tgt.get('t'))
            if tgt.get('k') not in ('var', 'mem') or not (tt.get('int') or tt.get('flt')) or tt.get('ptr') or (tt.get('sz') or 1) <= 1:
                continue
            n += 1
            ctx.analysed(f)
            swapped = any(w.get('k') == 'call' and w.get('pq') in ('asl::swapBytes', 'asl::bytesSwapped') and any(x.get('k') == tgt.get('k') and (x.get('id') == tgt.get('id') if tgt.get('k') == 'var' else x.get('f') == tgt.get('f')) for a in w.get('a', []) for x in walk_expr(a)) for w in fn_exprs(f))
            role = '%s%s:`%s` of a %d-byte scalar' % (f['n'], f['sig'].split('<')[0], pe(e)[:40], tt.get('sz'))
            ctx.check(swapped, 'C16.rawscalar', f['pq'], role, fwhere(f, e.get('l')), 'the scalar is byte-swapped in the same function',
                      '%s transfers the %d-byte scalar `%s` with a raw %s and never swaps it: with the stream in the non-native byte order the value (a length prefix) is read as its byte-reversed self - a string of length 5 becomes one of length 0x05000000 and every later value is misaligned' % (f['q'].split('(')[0], tt.get('sz'), pe(tgt), (e.get('pq') or '').split('::')[-1]))
    return n


def interp_array_writer(prog, f, other_val):
    """-> ('ok' | 'bad', text) | None.  operator<<(const Array<T>&) interpreted (scansim) with the argument an array of 70 distinct
    tokens, the scalar operator, the raw write and the swap helpers replaced by recorders, once per byte order."""
    import scansim
    if any('EnumWrapper_' in (T(f, v['t']).get('s') or '') for s_ in ir.walk_stmts(f['body']) if s_.get('k') == 'decl' for v in s_['vars']):
        return None                     # the foreach macro: its expansion is outside the interpreted fragment (decided by shape above)
    pt = T(f, T(f, f['params'][0]['t']).get('to'))
    m = __import__('re').match(r'asl::Array<(.*)>$', pt.get('rec') or '')
    if not m:
        return None
    esz = None
    for t_ in f.get('_types', {}).values() if isinstance(f.get('_types'), dict) else []:
        if isinstance(t_, dict) and t_.get('s') == m.group(1) and t_.get('sz'):
            esz = t_['sz']
    if not esz or esz <= 1:
        return None
    N = 70
    SW = 1 << 10            # token of element i is i + 1, its byte-swapped image i + 1 + SW (both fit the narrowest multi-byte element)
    endian_vals = endian_values(prog)
    for nm, val in sorted(endian_vals.items()):
        out = []

        def scalar(run, e, args, out=out, val=val):
            v = args[0]
            if isinstance(v, tuple) and v[0] == 'P':
                v = run.load(v, e.get('l'))
            out.append(v + (SW if val == other_val else 0) if isinstance(v, int) else v)
            return ('THIS',)

        def write(run, e, args, out=out):
            p_, n_ = args[0], args[1]
            if not (isinstance(p_, tuple) and p_[0] == 'P' and isinstance(n_, int)) or n_ % esz:
                raise scansim.Unsupported('raw write arguments')
            for j in range(n_ // esz):
                out.append(run.load(('P', p_[1], p_[2] + j), e.get('l')))
            return n_
        pid = f['params'][0]['id']
        bufs = {('O', pid): [1 + i for i in range(N)]}
        swap1 = lambda run, e, args: (args[0] + SW) if isinstance(args[0], int) else args[0]
        r = scansim.Run(prog, f, bufs, mems={'_endian': val}, methods={'operator<<': scalar, 'write': write, 'endian': lambda run, e, a, val=val: val, '*': 'interp'},
                        externs={'asl::bytesSwapped': swap1, 'bytesSwapped': swap1}, objects=True)
        r.objlen[pid] = N
        try:
            r.run()
        except scansim.OOB as o:
            return 'bad', 'writing an array of %d elements with byte order %s reads or writes outside a buffer: %s' % (N, nm, o)
        except (scansim.Unsupported, TypeError, KeyError, IndexError, AttributeError):
            return None
        want = [1 + i + (SW if val == other_val else 0) for i in range(N)]
        if out != want:
            k_ = next((i for i, (a_, b_) in enumerate(zip(out, want)) if a_ != b_), min(len(out), len(want)))
            got = out[k_] if k_ < len(out) else None
            desc = 'nothing' if got is None else ('element %d%s' % ((got % SW) - 1, ' byte-swapped' if got >= SW else ' unswapped')) if isinstance(got, int) else 'uninitialised data'
            return 'bad', 'with byte order %s an array of %d elements is written as %d item(s) and item %d is %s (expected element %d%s): the bytes on the wire are not the concatenation of the elements' % (
                nm, N, len(out), k_, desc, k_, ' byte-swapped' if val == other_val else '')
    return 'ok', 'interpreted on an array of %d distinct elements for every byte order: each element once, in order, swapped iff the order is the non-native one' % N



def check_order_members(ctx, prog):
    """C16.order: the byte order a stream object applies is the one last given to it.
    (a) every constructor initialises the byte-order members its sibling constructors initialise (R-CTORINIT on members of type
        Endian): an accepted socket must not start with a foreign order;
    (b) in a class with setEndian(), every member that carries the order - a member of type Endian, or one a constructor derives
        from an Endian argument or from such a member - and that is read outside the constructors is written by setEndian():
        a cached flag the setter does not refresh keeps applying the order given at construction."""
    import ctorinit
    classes = [r for r in sorted(prog.records) if any(T(prog.records[r], fl['t']).get('enum') == 'asl::Endian' for fl in prog.records[r].get('fields', []))]
    n_c = ctorinit.check(ctx, prog, 'C16.order', classes, want=lambda fl, t: t.get('enum') == 'asl::Endian',
                         consequence=' - operator<< / operator>> may swap the bytes of every scalar although the stream is nominally native')
    n_s = 0
    for rq in classes:
        rec = prog.records[rq]
        setters = [f for f in prog.functions if f.get('cls') == rq and f.get('n') == 'setEndian' and f.get('body')]
        if not setters:
            continue
        order = set(fl['n'] for fl in rec['fields'] if T(rec, fl['t']).get('enum') == 'asl::Endian')
        ctors = [f for f in prog.functions if f.get('cls') == rq and f.get('kind') == 'ctor' and f.get('body') and not f.get('implicit')]

        def carries(f, e):
            for w in walk_expr(e):
                if w.get('k') == 'var' and w.get('vk') == 'param' and T(f, T(f, w.get('t')).get('to') or w.get('t')).get('enum') == 'asl::Endian':
                    return True
                if w.get('k') == 'mem' and w.get('f') in order and strip_lv(w.get('e') or {}).get('k') in ('this', None):
                    return True
            return False
        changed = True
        while changed:
            changed = False
            for f in ctors:
                for i_ in f.get('inits') or []:
                    if i_.get('field') and i_.get('written') and i_['field'] not in order and i_.get('e') and carries(f, i_['e']):
                        order.add(i_['field'])
                        changed = True
                for e in fn_exprs(f):
                    if e.get('k') == 'bin' and e.get('op') == '=' and strip_lv(e['x']).get('k') == 'mem' and strip_lv(e['x']).get('f') not in order and carries(f, e['y']):
                        order.add(strip_lv(e['x'])['f'])
                        changed = True
        written = set()
        for f in setters:
            for e in q.fn_exprs_inlined(prog, f):
                if e.get('k') == 'bin' and e.get('op') == '=' and strip_lv(e['x']).get('k') == 'mem':
                    written.add(strip_lv(e['x'])['f'])
        readers = {}
        for f in prog.functions:
            if f.get('cls') != rq or f.get('kind') == 'ctor' or not f.get('body') or f in setters:
                continue
            assigned = set(id(strip_lv(e['x'])) for e in fn_exprs(f) if e.get('k') == 'bin' and e.get('op') == '=')
            for e in fn_exprs(f):
                if e.get('k') == 'mem' and e.get('f') in order and id(e) not in assigned:
                    readers.setdefault(e['f'], (f, e))
        for m in sorted(order):
            if m not in readers:
                continue
            n_s += 1
            f, e = readers[m]
            ctx.analysed(setters[0])
            ctx.check(m in written, 'C16.order', setters[0]['pq'], 'setEndian:refreshes order member `%s`' % m, fwhere(setters[0]), 'assigned by setEndian()',
                      '`%s` carries the byte order (set from the order given to the constructor) and is read by %s (line %s), but setEndian() does not assign it: after a switch of the order the old one keeps being applied' % (m, f['pq'], e.get('l')))
    ctx.floor('C16.order constructors compared', n_c, 2)
    ctx.floor('C16.order setEndian members', n_s, 2)



def check_buffer_alias(ctx, prog):
    """R-ALIAS for StreamBuffer: the writer members receive a pointer or a reference that may designate bytes of the buffer itself
    (`buffer.write(buffer.data(), n)`, `buffer << *buffer`); it must not be read after the storage was resized - the same
    typestate analysis as for Array (whose invalidating members are the ones StreamBuffer calls on itself, with Array's
    summaries for the forwarded calls: `append(p, n)` re-bases a pointer into the array)."""
    import alias, C01
    ac_arr = alias.AliasClass(prog, ctx, 'Array', 'asl::Array', ('_a',), (), C01.array_risk)
    unsafe_arr, _ = ac_arr.run('R-ALIAS', report=False)

    def risk(f, p):
        t = T(f, p['t'])
        return bool(t.get('ptr') or t.get('ref')) and not T(f, t.get('to')).get('rec')
    ac = alias.AliasClass(prog, ctx, 'StreamBuffer', 'asl::StreamBuffer', ('_a',), (), risk, extra_invalidators=ac_arr.inv)
    unsafe, n = ac.run('R-ALIAS', extern_summaries=unsafe_arr)
    ctx.floor('R-ALIAS StreamBuffer members x at-risk params', n, 2)



def check_widths(ctx, prog):
    """C16.width: every scalar type has a writer of its own width.  In the instantiation driver (one `s << x` per scalar type and
    stream class) the operator that overload resolution selects must take a value of the size of the argument: a missing
    overload lets the argument be converted to a wider type (short -> int), so the value occupies more bytes than its type
    and everything behind it is shifted."""
    n = 0
    bad = []
    for f in prog.functions:
        if not f.get('body') or not (f.get('q') or '').startswith('aslverif_driver::writeAll'):
            continue
        for e in fn_exprs(f):
            if not (e.get('k') == 'call' and (e.get('pq') or '').endswith('::operator<<') and e.get('clsp') in STREAM_CLASSES and len(e.get('a') or []) == 1):
                continue
            a = e['a'][0]
            inner = a
            conv = None
            while isinstance(inner, dict) and inner.get('k') in ('temp', 'cast', 'paren', 'construct'):
                if inner.get('k') == 'cast' and inner.get('ck') in ('IntegralCast', 'FloatingCast', 'IntegralToFloating', 'FloatingToIntegral'):
                    conv = inner
                nxt = inner.get('e') if inner.get('k') != 'construct' else (inner.get('a') or [None])[0]
                if nxt is None:
                    break
                inner = nxt
            if not (isinstance(inner, dict) and inner.get('k') == 'var'):
                continue
            vt = T(f, inner.get('dt') or inner.get('t'))
            if not ((vt.get('int') or vt.get('flt')) and vt.get('sz')):
                continue
            n += 1
            if conv is not None:
                ct = T(f, conv.get('t'))
                if ct.get('sz') and ct['sz'] != vt['sz']:
                    bad.append((f, e, vt.get('s'), ct.get('s'), vt['sz'], ct['sz']))
    ctx.evaluations += n
    if bad:
        f, e, a_, b_, sa, sb = bad[0]
        ctx.violation('C16.width', e.get('pq'), 'operator<<:an overload of the argument\'s own width exists for every scalar type', fwhere(f, e.get('l')),
                      'a `%s` argument (%d bytes) is converted to `%s` (%d bytes) to match `%s%s`: the stream class has no writer for that type, the value takes %d bytes on the wire' % (a_, sa, b_, sb, e.get('pq'), e.get('sig') or '', sb))
    else:
        ctx.ok('C16.width', 'aslverif_driver::writeAll', 'operator<<:an overload of the argument\'s own width exists for every scalar type', '', '%d scalar writes in the driver, none through a widening conversion' % n)
    ctx.floor('C16.width', n, 20)
