"""R-LITREAD: a counted read from a string literal stays inside the literal.

`s.append("\t\t\t\t\t\t\t\t", n)`, `String(lit, n)`, `memcpy(dst, lit, n)`, `fwrite(lit, 1, n, f)` read n bytes of a constant whose
size is known: n must not exceed strlen(lit) + 1 on any path.  Decided per call site: a constant count is compared directly; a
computed count is evaluated (bounded.decide) on a grid reaching well past the literal, restricted by the guards that dominate
the call - if a value larger than the literal is admitted, the call copies the literal's terminator and the bytes behind it
into the output."""
import ir, q, bounded
from ir import strip, strip_lv, const_val, T, pe, walk_expr, fn_exprs
from core import fwhere

# callee (last component) -> (index of the source argument, index of the count argument)
COUNTED = {'append': (0, 1), 'assign': (0, 1), 'String': (0, 1), 'memcpy': (1, 2), 'memmove': (1, 2), 'strncpy': (1, 2), 'strncat': (1, 2), 'write': (0, 1)}


def _literal(f, e):
    x = strip(q.expand(f, e))
    while isinstance(x, dict) and x.get('k') in ('cast', 'paren', 'temp'):
        x = strip(x['e'])
    return x if isinstance(x, dict) and x.get('k') == 'str' else None


def check(ctx, prog, rule_prefix, files):
    n = 0
    for f in prog.functions:
        if not f.get('body') or not any((f.get('file') or '').endswith(x) for x in files):
            continue
        G = None
        for e in fn_exprs(f):
            if e.get('k') not in ('call', 'construct'):
                continue
            name = (e.get('pq') or e.get('fn') or '').split('::')[-1]
            if name not in COUNTED:
                continue
            si, ci = COUNTED[name]
            args = e.get('a', [])
            if len(args) <= max(si, ci):
                continue
            lit = _literal(f, args[si])
            if lit is None or not T(f, strip_lv(args[ci]).get('t')).get('int'):
                continue
            n += 1
            ctx.analysed(f)
            size = len(lit['b']) + 1            # characters and the terminator
            role = '%s:%s reads at most the %d bytes of its literal (line %s)' % (f['n'], name, size, e.get('l'))
            where = fwhere(f, e.get('l'))
            cnt = args[ci]
            cv = const_val(cnt)
            if cv is not None:
                ctx.check(cv <= size, rule_prefix + '.litread', f['pq'], role, where, 'count %d <= %d' % (cv, size), '`%s` reads %d bytes from a literal of %d (with its terminator)' % (pe(e)[:60], cv, size))
                continue
            if G is None:
                G = q.Guarded(f)
            try:
                by_id, by_text = bounded.atoms_of(prog, f, cnt)
            except bounded.Undecidable as u:
                ctx.undecided(rule_prefix + '.litread', f['pq'], role, where, str(u))
                continue
            st, info = bounded.decide(prog, f, G.of(e), lambda ev: ev.ev(cnt) <= size, by_id, by_text, range(0, size + 40), G=G)
            ctx.evaluations += size + 40
            if st == 'undecided':
                ctx.undecided(rule_prefix + '.litread', f['pq'], role, where, 'count `%s`: %s' % (pe(cnt), info))
            elif st == 'holds':
                ctx.ok(rule_prefix + '.litread', f['pq'], role, where, 'for every value the dominating guards admit, `%s` <= %d' % (pe(cnt), size))
            else:
                ctx.violation(rule_prefix + '.litread', f['pq'], role, where, 'the guards of `%s` admit %s, for which it reads past the %d-byte literal: the terminator and whatever follows the literal in memory are copied into the output' % (
                    pe(e)[:70], ', '.join('%s = %s' % kv for kv in sorted(info.items())) if isinstance(info, dict) else info, size))
    return n


def selftest(ctx):
    """the rule reports the unbounded example of drivers/selftest_litread.cpp and accepts the bounded one (a rule whose expected
    count on the library is zero must still be seen to match)"""
    import os

    class Probe:
        def __init__(self):
            self.v, self.o, self.u, self.evaluations = [], [], [], 0

        def analysed(self, f):
            pass

        def ok(self, rule, fn, role, where, detail='', nontrivial=True):
            self.o.append(fn)

        def violation(self, rule, fn, role, where, detail, witness=None):
            self.v.append(fn)

        def undecided(self, rule, fn, role, where, detail):
            self.u.append(fn)

        def check(self, cond, rule, fn, role, where, detail_ok='', detail_bad=None, witness=None):
            (self.o if cond else self.v).append(fn)
    unit = os.path.join(ir.VERIF, 'drivers', 'selftest_litread.cpp')
    prog = ir.load_units([unit], force_inst=[unit])
    pr = Probe()
    check(pr, prog, 'selftest', ('selftest_litread.cpp',))
    good = [x for x in pr.v if x.endswith('unbounded')] and [x for x in pr.o if x.endswith('bounded') and not x.endswith('unbounded')] and not pr.u
    if not good:
        raise ir.AnalysisBroken('R-LITREAD self-test failed: violations %s, accepted %s, undecided %s' % (pr.v, pr.o, pr.u))
    ctx.evaluations += 2
