"""Control-flow graphs over the mini-IR and a small typestate dataflow engine.

Nodes are expression-level events in evaluation order (operands before the operation), branch nodes
for conditions (short-circuit operators are split), declaration events, scope-exit destructor events
and return events.  Exceptional edges are not modelled (the library is built without relying on them)."""
from ir import strip_lv, pe


class Node:
    __slots__ = ('id', 'kind', 'e', 'succ', 'line', 'info')

    def __init__(self, nid, kind, e=None, line=0, info=None):
        self.id = nid
        self.kind = kind      # entry exit ev br sw decl dtor ret join init
        self.e = e
        self.succ = []        # (node, label)
        self.line = line
        self.info = info

    def __repr__(self):
        return 'N%d:%s:%s@%d' % (self.id, self.kind, pe(self.e) if self.e else (self.info or {}).get('n', '') if isinstance(self.info, dict) else '', self.line)


ASSIGN_OPS = ('=', '+=', '-=', '*=', '/=', '%=', '&=', '|=', '^=', '<<=', '>>=')


class CFG:
    def __init__(self, f):
        self.f = f
        self.nodes = []
        self.entry = self._new('entry', line=f.get('line', 0))
        self.exit = self._new('exit', line=f.get('end', 0))
        self.scopes = []          # list of lists of var dicts (with dtor)
        self.breaks = []          # stack of (pending list, scope depth)
        self.conts = []
        self.labels = {}
        self.gotos = []
        self.switches = []
        pend = [(self.entry, None)]
        for i in f.get('inits', []):
            pend = self.expr(i.get('e'), pend)
            n = self._new('init', i.get('e'), i.get('l', 0), i)
            self._link(pend, n)
            pend = [(n, None)]
        self.scopes.append([])
        pend = self.stmt(f.get('body'), pend)
        pend = self._dtors(pend, 0)
        self.scopes.pop()
        self._link(pend, self.exit)
        for pend_g, label in self.gotos:
            tgt = self.labels.get(label)
            if tgt is not None:
                self._link(pend_g, tgt)
        self.preds = {}
        for n in self.nodes:
            for s, l in n.succ:
                self.preds.setdefault(s.id, []).append((n, l))

    # ---- helpers
    def _new(self, kind, e=None, line=0, info=None):
        n = Node(len(self.nodes), kind, e, line, info)
        self.nodes.append(n)
        return n

    def _link(self, pend, node):
        for p, l in pend:
            p.succ.append((node, l))

    def _dtors(self, pend, depth):
        """Scope-exit destructor events for all scopes deeper than or equal to `depth` (innermost first)."""
        for sc in reversed(self.scopes[depth:]):
            for v in reversed(sc):
                n = self._new('dtor', None, v.get('l', 0), v)
                self._link(pend, n)
                pend = [(n, None)]
        return pend

    # ---- expressions
    def expr(self, e, pend):
        """Linearise e: operands first, then an 'ev' node for e itself. Returns the new pending edges."""
        if e is None:
            return pend
        temps = []
        pend = self._expr(e, pend, temps)
        for t in reversed(temps):
            n = self._new('dtor', None, t.get('l', 0), {'n': '<temporary>', 'dtor': t.get('dtor'), 'dtorp': t.get('dtorp'), 'temp': t})
            self._link(pend, n)
            pend = [(n, None)]
        return pend

    def _expr(self, e, pend, temps):
        if e is None:
            return pend
        k = e.get('k')
        if k in ('int', 'float', 'str', 'fn', 'this'):
            return pend
        if k == 'bin' and e['op'] in ('&&', '||'):
            t, f = self._cond(e, pend, temps)
            j = self._new('ev', e, e.get('l', 0))
            self._link(t + f, j)
            return [(j, None)]
        if k == 'cond':
            t, f = self._cond(e['c'], pend, temps)
            pt = self._expr(e['x'], t, temps)
            pf = self._expr(e['y'], f, temps)
            j = self._new('ev', e, e.get('l', 0))
            self._link(pt + pf, j)
            return [(j, None)]
        if k == 'lambda':
            for c in e.get('caps', []):
                pend = self._expr(c, pend, temps)
        elif k == 'bin':
            if e['op'] in ASSIGN_OPS:
                pend = self._expr(e['y'], pend, temps)
                pend = self._expr(e['x'], pend, temps)
            elif e['op'] == ',':
                pend = self._expr(e['x'], pend, temps)
                pend = self._expr(e['y'], pend, temps)
            else:
                pend = self._expr(e['x'], pend, temps)
                pend = self._expr(e['y'], pend, temps)
        elif k == 'call':
            if e.get('ck') == 'op' and e.get('op') in ('&&', '||'):
                pass
            if 'obj' in e:
                pend = self._expr(e['obj'], pend, temps)
            if 'ce' in e:
                pend = self._expr(e['ce'], pend, temps)
            for a in e.get('a', []):
                pend = self._expr(a, pend, temps)
        elif k == 'temp':
            pend = self._expr(e['e'], pend, temps)
            temps.append(e)
            return pend      # the wrapped expression already has its node
        elif k == 'stmtexpr':
            pend = self.stmt(e.get('body'), pend)
        else:
            for key in ('b', 'i', 'e', 'n', 'init'):
                v = e.get(key)
                if isinstance(v, dict):
                    pend = self._expr(v, pend, temps)
            for key in ('placement', 'a', 'items', 'ch'):
                v = e.get(key)
                if isinstance(v, list):
                    for x in v:
                        if isinstance(x, dict) and 'k' in x and x.get('k') not in ('block',):
                            pend = self._expr(x, pend, temps)
        n = self._new('ev', e, e.get('l', 0))
        self._link(pend, n)
        return [(n, None)]

    def cond(self, e, pend):
        temps = []
        t, f = self._cond(e, pend, temps)
        if temps:
            for side in (0, 1):
                p = t if side == 0 else f
                for tm in reversed(temps):
                    n = self._new('dtor', None, tm.get('l', 0), {'n': '<temporary>', 'dtor': tm.get('dtor'), 'dtorp': tm.get('dtorp'), 'temp': tm})
                    self._link(p, n)
                    p = [(n, None)]
                if side == 0:
                    t = p
                else:
                    f = p
        return t, f

    def _cond(self, e, pend, temps):
        if e is None:
            j = self._new('join')
            self._link(pend, j)
            return [(j, None)], []
        s = e
        while s.get('k') == 'cast' and s.get('ck') in ('IntegralToBoolean', 'PointerToBoolean', 'NoOp', 'LValueToRValue') and s['e'].get('k') in ('bin', 'un', 'cast'):
            s = s['e']
        if s.get('k') == 'bin' and s['op'] == '&&':
            t1, f1 = self._cond(s['x'], pend, temps)
            t2, f2 = self._cond(s['y'], t1, temps)
            return t2, f1 + f2
        if s.get('k') == 'bin' and s['op'] == '||':
            t1, f1 = self._cond(s['x'], pend, temps)
            t2, f2 = self._cond(s['y'], f1, temps)
            return t1 + t2, f2
        if s.get('k') == 'un' and s['op'] == '!':
            t, f = self._cond(s['e'], pend, temps)
            return f, t
        pend = self._expr(e, pend, temps)
        b = self._new('br', e, e.get('l', 0))
        self._link(pend, b)
        return [(b, True)], [(b, False)]

    # ---- statements
    def stmt(self, s, pend):
        if s is None:
            return pend
        k = s.get('k')
        if k == 'block':
            flat = s.get('flat')
            if not flat:
                self.scopes.append([])
            for x in s['s']:
                pend = self.stmt(x, pend)
            if not flat:
                pend = self._dtors(pend, len(self.scopes) - 1)
                self.scopes.pop()
            return pend
        if k == 'expr':
            return self.expr(s['e'], pend)
        if k == 'decl':
            for v in s['vars']:
                pend = self._decl(v, pend)
            return pend
        if k == 'if':
            self.scopes.append([])
            if s.get('init'):
                pend = self.stmt(s['init'], pend)
            if s.get('cv'):
                pend = self._decl(s['cv'], pend)
            t, f = self.cond(s['c'], pend)
            pt = self._sub(s['then'], t)
            pf = self._sub(s.get('else'), f) if s.get('else') else f
            out = pt + pf
            out = self._dtors(out, len(self.scopes) - 1)
            self.scopes.pop()
            return out
        if k == 'while':
            head = self._new('join', line=s.get('l', 0))
            self._link(pend, head)
            self.scopes.append([])
            p = [(head, None)]
            if s.get('cv'):
                p = self._decl(s['cv'], p)
            t, f = self.cond(s['c'], p)
            self.breaks.append(([], len(self.scopes)))
            self.conts.append(([], len(self.scopes)))
            body = self._sub(s['body'], t)
            cpend, _ = self.conts.pop()
            bpend, _ = self.breaks.pop()
            back = self._dtors(body + cpend, len(self.scopes) - 1)
            self._link(back, head)
            out = self._dtors(f, len(self.scopes) - 1) if any(v for v in self.scopes[-1]) else f
            self.scopes.pop()
            return out + bpend
        if k == 'do':
            head = self._new('join', line=s.get('l', 0))
            self._link(pend, head)
            self.breaks.append(([], len(self.scopes)))
            self.conts.append(([], len(self.scopes)))
            body = self._sub(s['body'], [(head, None)])
            cpend, _ = self.conts.pop()
            bpend, _ = self.breaks.pop()
            t, f = self.cond(s['c'], body + cpend)
            self._link(t, head)
            return f + bpend
        if k == 'for':
            self.scopes.append([])
            if s.get('init'):
                pend = self.stmt(s['init'], pend)
            head = self._new('join', line=s.get('l', 0))
            self._link(pend, head)
            p = [(head, None)]
            if s.get('cv'):
                p = self._decl(s['cv'], p)
            if s.get('c') is not None:
                t, f = self.cond(s['c'], p)
            else:
                t, f = p, []
            self.breaks.append(([], len(self.scopes)))
            self.conts.append(([], len(self.scopes)))
            body = self._sub(s['body'], t)
            cpend, _ = self.conts.pop()
            bpend, _ = self.breaks.pop()
            inc = self.expr(s.get('inc'), body + cpend)
            self._link(inc, head)
            out = self._dtors(f + bpend, len(self.scopes) - 1)
            self.scopes.pop()
            return out
        if k == 'switch':
            self.scopes.append([])
            if s.get('init'):
                pend = self.stmt(s['init'], pend)
            if s.get('cv'):
                pend = self._decl(s['cv'], pend)
            pend = self.expr(s['c'], pend)
            sw = self._new('sw', s['c'], s.get('l', 0), {'cases': [], 'default': False})
            self._link(pend, sw)
            self.switches.append(sw)
            self.breaks.append(([], len(self.scopes)))
            body = self._sub(s['body'], [])
            bpend, _ = self.breaks.pop()
            self.switches.pop()
            out = body + bpend
            if not sw.info['default']:
                out = out + [(sw, 'nodefault')]
            out = self._dtors(out, len(self.scopes) - 1)
            self.scopes.pop()
            return out
        if k == 'case' or k == 'default':
            j = self._new('join', line=s.get('l', 0))
            self._link(pend, j)
            if self.switches:
                sw = self.switches[-1]
                if k == 'case':
                    lab = ('case', s.get('v'), s.get('v2'))
                    sw.info['cases'].append((s.get('v'), s.get('v2')))
                else:
                    lab = 'default'
                    sw.info['default'] = True
                sw.succ.append((j, lab))
            return self.stmt(s['sub'], [(j, None)])
        if k == 'break':
            if self.breaks:
                lst, depth = self.breaks[-1]
                lst.extend(self._dtors(pend, depth))
            return []
        if k == 'continue':
            if self.conts:
                lst, depth = self.conts[-1]
                lst.extend(self._dtors(pend, depth))
            return []
        if k == 'return':
            pend = self.expr(s.get('e'), pend)
            n = self._new('ret', s.get('e'), s.get('l', 0))
            self._link(pend, n)
            pend = self._dtors([(n, None)], 0)
            self._link(pend, self.exit)
            return []
        if k == 'goto':
            self.gotos.append((pend, s['label']))
            return []
        if k == 'label':
            j = self._new('join', line=s.get('l', 0))
            self._link(pend, j)
            self.labels[s['n']] = j
            return self.stmt(s['sub'], [(j, None)])
        if k == 'null':
            return pend
        if k == 'try':
            start = self._new('join', line=s.get('l', 0))
            self._link(pend, start)
            out = self.stmt(s['body'], [(start, None)])
            for h in s.get('handlers', []):
                out = out + self.stmt(h, [(start, 'exc')])
            return out
        # unknown statement kinds: keep their children in order
        for c in s.get('ch', []) or []:
            pend = self.stmt(c, pend)
        return pend

    def _sub(self, s, pend):
        """A sub-statement that is its own scope when not a block."""
        if s is None:
            return pend
        if s.get('k') == 'block':
            return self.stmt(s, pend)
        self.scopes.append([])
        pend = self.stmt(s, pend)
        pend = self._dtors(pend, len(self.scopes) - 1)
        self.scopes.pop()
        return pend

    def _decl(self, v, pend):
        if v.get('init') is not None and not v.get('static'):
            pend = self.expr(v['init'], pend)
        n = self._new('decl', v.get('init'), v.get('l', 0), v)
        self._link(pend, n)
        if v.get('dtor') and not v.get('static') and self.scopes:
            self.scopes[-1].append(v)
        return [(n, None)]


def dataflow(cfg, init, step, edge=None, max_states=200000):
    """Forward exploration of (node, typestate) pairs.

    step(node, state) -> state after the node's effect (or a list of states; None = path dies).
    edge(node, label, state) -> state refined by taking that edge (None = infeasible).
    Returns (reached: {node id: set(states at node entry)}, parent map for witness reconstruction)."""
    reached = {}
    parent = {}
    work = [(cfg.entry, init)]
    reached.setdefault(cfg.entry.id, set()).add(init)
    parent[(cfg.entry.id, init)] = None
    count = 0
    while work:
        n, st = work.pop()
        count += 1
        if count > max_states:
            raise RuntimeError('dataflow state explosion in %s' % cfg.f.get('q'))
        out = step(n, st)
        if out is None:
            continue
        outs = out if isinstance(out, list) else [out]
        for o in outs:
            for s, lab in n.succ:
                o2 = edge(n, lab, o) if edge else o
                if o2 is None:
                    continue
                rs = reached.setdefault(s.id, set())
                if o2 not in rs:
                    rs.add(o2)
                    parent[(s.id, o2)] = (n.id, st)
                    work.append((s, o2))
    return reached, parent


def witness(cfg, parent, nid, st, limit=40):
    """Source-line trace from the function entry to (node, state)."""
    lines = []
    cur = (nid, st)
    guard = 0
    while cur is not None and guard < 100000:
        guard += 1
        n = cfg.nodes[cur[0]]
        if n.line and (not lines or lines[-1] != n.line):
            lines.append(n.line)
        cur = parent.get(cur)
    lines.reverse()
    if len(lines) > limit:
        lines = lines[:limit // 2] + ['...'] + lines[-limit // 2:]
    return ' -> '.join(':%s' % l for l in lines)


def count_paths(cfg, cap=10**9):
    """Number of acyclic entry-to-exit paths (back edges cut), for the evidence counters."""
    memo = {}
    onstack = set()

    import sys
    sys.setrecursionlimit(max(10000, sys.getrecursionlimit()))

    def go(n):
        if n.id in memo:
            return memo[n.id]
        if n is cfg.exit:
            return 1
        if n.id in onstack:
            return 0
        onstack.add(n.id)
        t = 0
        for s, _ in n.succ:
            t += go(s)
            if t > cap:
                t = cap
                break
        onstack.discard(n.id)
        memo[n.id] = t
        return t
    return go(cfg.entry)


def follow_helpers(prog, f, step, follow=None, max_depth=3, edge=None):
    """Interprocedural version of a dataflow transfer function: at a node whose expression is a call of a helper (a function
    with a body defined in the same source file or the same class as f - e.g. an extracted static function or private member),
    the helper's own control-flow graph is explored from the current state with the same transfer function, and the states at
    its exit replace the single successor state.  follow(call, helper) may restrict which helpers are entered."""
    from ir import walk_expr
    cache = {}
    cfgs = {}

    def helper_of(e):
        if not isinstance(e, dict) or e.get('k') != 'call' or not e.get('fn'):
            return None
        for h in prog.fn(e['fn'], e.get('sig')):
            if h.get('body') and h is not f and (h.get('file') == f.get('file') or (h.get('clsp') and h.get('clsp') == f.get('clsp'))):
                if follow is None or follow(e, h):
                    return h
        return None

    def make(depth):
        def step2(nd, st):
            out = step(nd, st)
            if out is None or depth >= max_depth or nd.kind != 'ev' or nd.e is None:
                return out
            h = helper_of(nd.e)
            if h is None:
                return out
            outs = out if isinstance(out, list) else [out]
            res = []
            for o in outs:
                key = (h.get('id'), h.get('q'), o, depth)
                if key not in cache:
                    if h.get('id') not in cfgs:
                        cfgs[h.get('id')] = CFG(h)
                    g = cfgs[h['id']]
                    try:
                        reached, _ = dataflow(g, o, make(depth + 1), edge)
                        cache[key] = list(reached.get(g.exit.id, set())) or [o]
                    except RuntimeError:
                        cache[key] = [o]
                res.extend(cache[key])
            return res
        return step2
    return make(0)
