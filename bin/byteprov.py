"""Byte-provenance interpretation of a value-assembling function body.

Abstract domain: an integer variable holds a map {source byte index: left shift} ("byte k of the input sits at bit
shift s"), or TOP.  Control is resolved, not explored: conditions are evaluated with the byte-order member bound to one
enumerator and with loop counters bound to concrete integers; loops are unrolled only when their bounds evaluate to
constants (at most MAX_UNROLL iterations).  Anything else makes the result TOP (-> the caller reports undecided).
No input data is ever bound: the result holds for every buffer content at once."""
from ir import strip, strip_lv, const_val, T, pe
import q
from bytesets import Evaluator, Undecidable

MAX_UNROLL = 16


class Top(Exception):
    pass


class Interp:
    def __init__(self, prog, f, is_source, bind):
        """is_source(expr) -> True when expr designates the source byte pointer; bind(expr) -> int or None (byte-order member)"""
        self.prog, self.f = prog, f
        self.is_source = is_source
        self.bind = bind
        self.ints = {}       # var id -> concrete int (loop counters)
        self.prov = {}       # var id -> {byte: shift}
        self.narrow = []     # shifts wider than their operand
        self.steps = 0
        self.advance = 0     # total the source pointer was advanced by (`_ptr += n`)
        self.depth = 0

    # ---- concrete side
    def concrete(self, e):
        outer = self

        class Ev(Evaluator):
            def sub_evaluator(self, g, env, arrays):
                sub = Ev(self.prog, g, env, arrays, self.depth + 1)
                return sub

            def ev(self, x):
                if x is not None:
                    b = outer.bind(x)
                    if b is not None:
                        return b
                    if x.get('k') == 'var' and x.get('id') in outer.ints:
                        return outer.ints[x['id']]
                    if x.get('k') == 'var' and x.get('id') in outer.prov:
                        raise Undecidable('data-dependent value')
                return Evaluator.ev(self, x)
        return Ev(self.prog, self.f).ev(e)

    def source_ptr(self, e):
        e = strip(e)
        if self.is_source(e):
            return True
        if e.get('k') == 'var' and e.get('vk') == 'local':
            d = q.single_defs(self.f).get(e['id'])
            return d is not None and self.source_ptr(d)
        return False

    # ---- abstract side
    def value(self, e):
        e0 = e
        e = strip(e)
        k = e.get('k')
        if k == 'int':
            if e['v'] == 0:
                return {}
            raise Top('non-zero constant %s in the assembly' % e['v'])
        if k == 'idx' and self.source_ptr(e['b']):
            return {self.concrete(e['i']): 0}
        if k == 'un' and e.get('op') == '*' and self.source_ptr(e['e']):
            return {0: 0}
        if k == 'var':
            if e['id'] in self.prov:
                if self.prov[e['id']] is None:
                    raise Top('variable %s holds an unresolved value' % e.get('n'))
                return dict(self.prov[e['id']])
            if e['id'] in self.ints:
                if self.ints[e['id']] == 0:
                    return {}
                raise Top('non-zero constant in the assembly')
            d = q.single_defs(self.f).get(e['id'])
            if d is not None:
                return self.value(d)
            raise Top('variable %s' % e.get('n'))
        if k == 'cond':
            return self.value(e['x'] if self.concrete(e['c']) else e['y'])
        if k == 'bin' and e['op'] == '|':
            a, b = self.value(e['x']), self.value(e['y'])
            for i in b:
                if i in a:
                    raise Top('byte %d used twice' % i)
            a.update(b)
            return a
        if k == 'bin' and e['op'] == '<<':
            a = self.value(e['x'])
            s = self.concrete(e['y'])
            lt = T(self.f, e['x'].get('t'))
            if a and (lt.get('sz') or 8) * 8 <= s:
                self.narrow.append('%s << %d' % (pe(e['x']), s))
            return dict((i, s0 + s) for i, s0 in a.items())
        if k == 'bin' and e['op'] == ',':
            return self.value(e['y'])
        if k == 'construct' and len(e.get('a', [])) == 1:
            return self.value(e['a'][0])
        if k == 'call' and e.get('fn') and not e.get('a') and self.depth < 3:
            # a helper of the same object that assembles and returns the value
            cands = [g for g in self.prog.fn(e['fn'], e.get('sig')) if g.get('body')]
            if cands:
                sub = Interp(self.prog, cands[0], self.is_source, self.bind)
                sub.depth = self.depth + 1
                r = sub.stmt(cands[0]['body'])
                self.advance += sub.advance
                self.narrow += sub.narrow
                if r is None or r.get('e') is None:
                    raise Top('helper %s returns no value' % e['fn'])
                return sub.value(r['e'])
        raise Top('expression `%s`' % pe(e0))

    def assign(self, tgt, op, rhs):
        t = strip_lv(tgt)
        if t.get('k') != 'var':
            return              # stores to memory do not matter for the assembled value
        tt = T(self.f, t.get('t'))
        if not tt.get('int'):
            return
        try:
            self._assign(t, op, rhs)
        except Top:
            self.prov[t['id']] = None     # unresolved: only an error if the assembled value reads it
            self.ints.pop(t['id'], None)

    def _assign(self, t, op, rhs):
        try:
            if op == '=':
                self.prov[t['id']] = self.value(rhs)
            elif op == '|=':
                if self.prov.get(t['id'], {}) is None:
                    raise Top('unresolved accumulator')
                a = dict(self.prov.get(t['id'], {}))
                b = self.value(rhs)
                for i in b:
                    if i in a:
                        raise Top('byte %d used twice' % i)
                a.update(b)
                self.prov[t['id']] = a
            elif op == '<<=':
                s = self.concrete(rhs)
                if self.prov.get(t['id'], {}) is None:
                    raise Top('unresolved accumulator')
                self.prov[t['id']] = dict((i, s0 + s) for i, s0 in self.prov.get(t['id'], {}).items())
            else:
                raise Top('operator %s' % op)
        except Undecidable as u:
            # a concrete integer local (counter, shift amount): keep it on the concrete side
            try:
                if op == '=':
                    self.ints[t['id']] = self.concrete(rhs)
                    self.prov.pop(t['id'], None)
                    return
            except Undecidable:
                pass
            raise Top(str(u))

    def expr(self, e):
        e = strip(e)
        k = e.get('k')
        if k == 'bin' and e.get('op') == '+=' and self.is_source(strip_lv(e['x'])):
            self.advance += self.concrete(e['y'])
            return
        if k == 'bin' and e.get('op', '').endswith('=') and e['op'] not in ('==', '!=', '<=', '>='):
            t = strip_lv(e['x'])
            if t.get('k') == 'var' and t.get('id') in self.ints:
                v = self.ints[t['id']]
                try:
                    r = self.concrete(e['y'])
                except Undecidable:
                    r = None
                if r is not None:
                    self.ints[t['id']] = {'=': r, '+=': v + r, '-=': v - r}.get(e['op'])
                    if self.ints[t['id']] is None:
                        raise Top('operator %s on a counter' % e['op'])
                    return
                # an accumulator initialised with 0 starts receiving input bytes: move it to the abstract side
                if v != 0:
                    raise Top('accumulator %s starts from %d' % (t.get('n'), v))
                del self.ints[t['id']]
                self.prov[t['id']] = {}
            self.assign(e['x'], e['op'], e['y'])
            return
        if k == 'un' and e.get('op') in ('post++', 'pre++', 'post--', 'pre--'):
            t = strip_lv(e['e'])
            if t.get('k') == 'var' and t.get('id') in self.ints:
                self.ints[t['id']] += 1 if '++' in e['op'] else -1
            return
        if k == 'bin' and e.get('op') == ',':
            self.expr(e['x'])
            self.expr(e['y'])
            return
        # calls and other expression statements do not touch integer locals

    def stmt(self, s):
        """-> 'return' node reached or None"""
        self.steps += 1
        if self.steps > 2000:
            raise Top('too many steps')
        if s is None:
            return None
        k = s.get('k')
        if k == 'block':
            for x in s['s']:
                r = self.stmt(x)
                if r is not None:
                    return r
            return None
        if k == 'decl':
            for v in s['vars']:
                tv = T(self.f, v['t'])
                if v.get('init') is None or not tv.get('int') or tv.get('ptr'):
                    continue
                if v['id'] in q.single_defs(self.f):
                    continue            # read lazily through its initialiser
                try:
                    self.ints[v['id']] = self.concrete(v['init'])
                except Undecidable:
                    self.prov[v['id']] = self.value(v['init'])
            return None
        if k == 'expr':
            self.expr(s['e'])
            return None
        if k == 'if':
            try:
                c = self.concrete(s['c'])
            except Undecidable as u:
                raise Top('branch on `%s`: %s' % (pe(s['c']), u))
            return self.stmt(s['then'] if c else s.get('else'))
        if k in ('for', 'while'):
            if s.get('init') is not None:
                self.stmt(s['init'])
            n = 0
            while True:
                try:
                    if s.get('c') is not None and not self.concrete(s['c']):
                        break
                except Undecidable as u:
                    raise Top('loop condition `%s`: %s' % (pe(s['c']), u))
                n += 1
                if n > MAX_UNROLL:
                    raise Top('loop runs more than %d times' % MAX_UNROLL)
                r = self.stmt(s['body'])
                if r is not None:
                    return r
                if s.get('inc') is not None:
                    self.expr(s['inc'])
            return None
        if k == 'return':
            return s
        if k in ('null', 'empty'):
            return None
        raise Top('statement kind %s' % k)


def assembled(prog, f, is_source, bind, target):
    """Run the body of f up to its return; -> ({byte: shift} of target(expr-getter), narrow shifts) or raises Top.
    target(interp) is called at the end and returns the expression whose provenance is wanted."""
    it = Interp(prog, f, is_source, bind)
    try:
        it.stmt(f['body'])
        e = target(it)
        v = it.value(e)
        assembled.last_advance = it.advance
        return v, it.narrow
    except Undecidable as u:
        raise Top(str(u))
