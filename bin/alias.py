"""R-ALIAS / R-SELFARG - no use of a by-reference/pointer argument after the receiver's storage may have been
invalidated (shared by C01 Array, C03 String, C04 Var).

Per owning class K a descriptor names the storage fields and the primitive invalidators; the invalidating member
set Inv(K) is computed as a least fixpoint over the resolved call graph of K's instantiated members.  A typestate
dataflow (fresh -> stale at the first invalidation of the receiver; safe/fresh again through the repository's two
accepted idioms: a no-alias branch on an alias-index variable computed from the argument's address before the
invalidation, and re-basing assignment to the pointer parameter) runs over the CFG of every member with an at-risk
parameter.  Summaries "member M reads parameter j after invalidating its receiver" are propagated to call sites that
forward an at-risk argument (fixpoint), including call sites in other classes (Var -> Array<Var>/Dic<Var>)."""
import ir, q, cfg as cfgm
from ir import strip, strip_lv, const_val, T, pe, walk_expr, fn_exprs, AnalysisBroken
from core import fwhere


def rooted_in_this_field(e, fields):
    """Is the object expression e rooted at this-><one of fields> (through *, ->, ., [] and casts)?  Returns the field."""
    e = strip(e)
    guard = 0
    while isinstance(e, dict) and guard < 20:
        guard += 1
        k = e.get('k')
        if k == 'mem':
            b = strip(e.get('b') or {})
            if b.get('k') == 'this' and e.get('f') in fields:
                return e['f']
            if b.get('k') == 'this':
                return None
            # anonymous-union members: this->(anon)->_a
            if e.get('f') in fields and (b.get('k') == 'mem' and b.get('f', '') == ''):
                bb = strip(b.get('b') or {})
                if bb.get('k') == 'this':
                    return e['f']
            e = b
        elif k == 'un' and e.get('op') in ('*', '&'):
            e = strip(e['e'])
        elif k == 'idx':
            e = strip(e['b'])
        elif k == 'call' and e.get('obj') is not None and e.get('ck') in ('method', 'op') and (e.get('op') in ('->', '*', '[]') or (e.get('fn') or '').split('::')[-1] in ('operator->', 'operator*', 'data', 'str', 'ptr', 'get')):
            e = strip(e['obj'])
        elif k == 'cast':
            e = strip(e['e'])
        else:
            return None
    return None


def is_this_obj(e):
    o = e.get('obj')
    if o is None:
        return False
    o = strip(o)
    while o.get('k') == 'un' and o.get('op') == '*':
        o = strip(o['e'])
    return o.get('k') == 'this'


class AliasProbe:
    """range-test recognition inside a helper function: the storage is whatever other pointer the parameter is compared with"""

    def __init__(self, owner, h, hp):
        self.owner, self.h, self.hp = owner, h, hp

    def is_range(self, e):
        e = strip(e)
        while e.get('k') in ('paren', 'cast'):
            e = strip(e['e'])
        if e.get('k') == 'un' and e.get('op') == '!':
            return self.is_range(e['e'])
        if e.get('k') == 'bin' and e.get('op') in ('&&', '||'):
            return self.is_range(e['x']) and self.is_range(e['y'])
        if e.get('k') == 'bin' and e.get('op') in ('>=', '<=', '<', '>'):
            has_p = any(w.get('k') == 'var' and w.get('id') == self.hp for w in walk_expr(e))
            has_o = any((w.get('k') == 'var' and w.get('id') != self.hp and T(self.h, w.get('t')).get('ptr')) or (w.get('k') == 'mem' and w.get('f') in self.owner.storage) or
                        (w.get('k') == 'call' and (w.get('pq') or '').split('::')[-1] in ('str', 'data')) for w in walk_expr(e))
            return has_p and has_o
        return False


class AliasClass:
    """Descriptor + analysis for one owning class."""

    def __init__(self, prog, ctx, name, cls, storage, sub_objects=(), risk=None, extra_invalidators=()):
        self.prog = prog
        self.ctx = ctx
        self.name = name
        self.cls = cls                      # pattern name, e.g. asl::Array
        self.storage = storage              # storage pointer fields on this
        self.sub_objects = sub_objects      # fields holding owned containers (Var: _a, _o)
        self.risk = risk                    # function(f, param) -> bool
        self.extra = set(extra_invalidators)
        self.members = [f for f in prog.functions if f.get('clsp') == cls and not f.get('implicit')]
        self.inv = self._compute_inv()
        self.summary = {}                   # (pq, sig-insensitive param index) -> 'unsafe'
        self.cfgs = {}

    # -------------------------------------------------------------- invalidators
    def primitive(self, f, e):
        """e is a primitive invalidation of the receiver's storage inside member f."""
        k = e.get('k')
        if k == 'call':
            fn = e.get('fn') or ''
            if fn in ('realloc', 'free') and not e.get('clsp'):
                return any(rooted_in_this_field(a, self.storage) for a in e.get('a', [])) or any(
                    w.get('k') == 'mem' and w.get('f') in self.storage for a in e.get('a', []) for w in walk_expr(a))
            if fn in ('memmove', 'memcpy') and e.get('a'):
                d = q.expand(f, e['a'][0])       # through single-assignment pointer locals (T* const first = _a + i)
                return any(w.get('k') == 'mem' and w.get('f') in self.storage and strip(w.get('b') or {}).get('k') == 'this' for w in walk_expr(d))
            # non-const member call on an owned sub-object (Var: (*_a) = ..., (*_a) << x, _o->...)
            if self.sub_objects and e.get('obj') is not None and 'const' not in (e.get('sig') or '').split(')')[-1]:
                if rooted_in_this_field(e['obj'], self.sub_objects):
                    name = (e.get('pq') or '').split('::')[-1]
                    if name in ('length', 'data', 'operator*', 'operator->', 'ptr', 'has', 'get', 'find', 'all', 'operator[]'):
                        # operator[] on Dic may insert; on Array it does not: decided by the callee's own Inv membership below
                        if name != 'operator[]':
                            return False
                        return (e.get('clsp') or '') in ('asl::Map', 'asl::Dic', 'asl::HashMap')
                    return True
            return False
        if k == 'bin' and e.get('op') == '=':
            lhs = strip_lv(e['x'])
            if lhs.get('k') == 'mem' and lhs.get('f') in self.storage and strip(lhs.get('b') or {}).get('k') == 'this':
                return True
        if k == 'delete':
            return bool(rooted_in_this_field(e['e'], self.storage + tuple(self.sub_objects)))
        return False

    def _compute_inv(self):
        inv = set()
        body_calls = {}
        for f in self.members:
            prim = False
            calls = set()
            for e in fn_exprs(f):
                if self.primitive(f, e):
                    prim = True
                if e.get('k') == 'call' and (e.get('clsp') == self.cls or e.get('pq') in self.extra) and (e.get('obj') is None or is_this_obj(e)) and (e.get('obj') is not None or e.get('pq') in self.extra):
                    calls.add(e.get('pq'))
            body_calls.setdefault(f['pq'], set()).update(calls)
            if prim:
                inv.add(f['pq'])
        inv |= self.extra
        changed = True
        while changed:
            changed = False
            for pq, calls in body_calls.items():
                if pq not in inv and calls & inv:
                    inv.add(pq)
                    changed = True
        return inv

    def shift_source(self, f, e):
        """e moves elements inside the receiver's storage (memmove / memcpy with both ends in it): the printed source start, else None.
        Nothing is released: a pointer into the storage stays valid, it only designates the neighbouring element if it lay in the
        moved range."""
        if e.get('k') == 'call' and (e.get('fn') or '') in ('memmove', 'memcpy') and not e.get('clsp') and len(e.get('a', [])) == 3:
            def rooted(a):
                d = q.expand(f, a)
                return any(w.get('k') == 'mem' and w.get('f') in self.storage and strip(w.get('b') or {}).get('k') == 'this' for w in walk_expr(d))
            if rooted(e['a'][0]) and rooted(e['a'][1]):
                x = strip(q.expand(f, e['a'][1]))
                while x.get('k') in ('cast', 'paren'):
                    x = strip(x['e'])
                return pe(x)
        return None

    def invalidates(self, f, e):
        """Expression node e, evaluated inside member f, may invalidate the receiver's storage."""
        if self.primitive(f, e):
            return True
        if e.get('k') == 'call' and e.get('clsp') == self.cls and e.get('pq') in self.inv and e.get('obj') is not None and is_this_obj(e):
            return True
        # an invalidating member of a base class (named in extra_invalidators) called on this object, explicitly or implicitly
        if e.get('k') == 'call' and e.get('pq') in self.extra and e.get('clsp') != self.cls and (e.get('obj') is None or is_this_obj(e)):
            return True
        return False

    # -------------------------------------------------------------- dataflow per member / param
    def cfg(self, f):
        key = (f['q'], f['sig'])
        if key not in self.cfgs:
            self.cfgs[key] = cfgm.CFG(f)
        return self.cfgs[key]

    def is_range_test(self, f, e, pid):
        """e is a pointer range test of the parameter (or its address) against the receiver's storage:
        comparisons (<, <=, >, >=) joined by && / || whose operands mention the parameter and storage-derived pointers."""
        e = strip(e)
        while e.get('k') == 'paren':
            e = strip(e['e'])
        if e.get('k') == 'un' and e.get('op') == '!':
            return self.is_range_test(f, e['e'], pid)       # `!(p < first)` is `p >= first`
        if e.get('k') == 'bin' and e.get('op') in ('&&', '||'):
            return self.is_range_test(f, e['x'], pid) and self.is_range_test(f, e['y'], pid)
        if e.get('k') == 'bin' and e.get('op') in ('>=', '<=', '<', '>'):
            al = self.param_pointers(f, pid)
            has_p = any(w.get('k') == 'var' and (w.get('id') == pid or w.get('id') in al) for w in walk_expr(e))
            has_s = any((w.get('k') == 'mem' and w.get('f') in self.storage) or (w.get('k') == 'var' and w.get('vk') == 'local' and w.get('id') not in al and T(f, w.get('t')).get('ptr')) or
                        (w.get('k') == 'call' and (w.get('pq') or '').split('::')[-1] in ('str', 'data')) for w in walk_expr(e))
            return has_p and has_s
        return False

    def param_pointers(self, f, pid):
        """pointer locals declared as `&param` (`const T* src = &x;`): a range test on such a pointer is a range test of the parameter"""
        key = (f['q'], f['sig'], pid)
        cache = self.__dict__.setdefault('_ppc', {})
        if key not in cache:
            out = set()
            for s_ in ir.walk_stmts(f['body']):
                if s_.get('k') == 'decl':
                    for v in s_['vars']:
                        x = strip(v.get('init') or {})
                        while x.get('k') == 'cast':
                            x = strip(x['e'])
                        if x.get('k') == 'un' and x.get('op') == '&' and strip_lv(x['e']).get('k') == 'var' and strip_lv(x['e']).get('id') == pid:
                            out.add(v['id'])
            cache[key] = out
        return cache[key]

    def range_helper_polarity(self, f, e, pid):
        """e is a call of a bool helper that tells whether the parameter points into the receiver's storage (a free function given
        the parameter and a storage pointer, or a member given the parameter).  -> True when `true` means inside, False when
        `true` means outside, None when e is no such call."""
        e = strip(e) if isinstance(e, dict) else {}
        if not (e.get('k') == 'call' and e.get('fn') and (not e.get('clsp') or (e.get('clsp') == self.cls and (e.get('obj') is None or is_this_obj(e))))):
            return None
        if not T(f, e.get('t')).get('bool'):
            return None
        args = e.get('a', [])
        pidx = [j for j, a in enumerate(args) if any(w.get('k') == 'var' and w.get('id') == pid for w in walk_expr(a))]
        if len(pidx) != 1:
            return None
        hs = [g for g in self.prog.fn(e['fn'], e.get('sig')) if g.get('body') and len(g.get('params') or []) == len(args)]
        if not hs:
            return None
        h = hs[0]
        hp = h['params'][pidx[0]]['id']
        if not e.get('clsp') and not any((w.get('k') == 'mem' and w.get('f') in self.storage) or (w.get('k') == 'call' and (w.get('pq') or '').split('::')[-1] in ('str', 'data')) or
                                         (w.get('k') == 'var' and w.get('vk') == 'local' and T(f, w.get('t')).get('ptr')) for a in args for w in walk_expr(a)):
            return None
        sub = AliasProbe(self, h, hp)
        body = h['body']['s'] if h['body'].get('k') == 'block' else [h['body']]
        rets = [st for st in ir.walk_stmts(h['body']) if st.get('k') == 'return' and st.get('e') is not None]
        if len(rets) == 1 and sub.is_range(rets[0]['e']):
            c = strip(rets[0]['e'])
            while c.get('k') in ('paren', 'cast'):
                c = strip(c['e'])
            return not (c.get('k') == 'bin' and c.get('op') == '||')
        # `if (<outside test>) return false; ...; return true;` (or the mirror image)
        guards = [st for st in body if st.get('k') == 'if' and sub.is_range(st['c'])]
        last = body[-1] if body else {}
        if guards and last.get('k') == 'return' and const_val(last.get('e')) is not None:
            return bool(const_val(last['e']))
        return None

    def offset_helper_call(self, f, si, pid):
        """si is a call of a helper that answers where the parameter points into the receiver's storage: a free function given
        the parameter and a storage pointer, or a member of the class given the parameter; its body compares pointers and returns
        a negative literal on some path (index or offset, negative = does not alias)."""
        si = strip(si) if isinstance(si, dict) else {}
        if not (si.get('k') == 'call' and si.get('fn') and (not si.get('clsp') or (si.get('clsp') == self.cls and (si.get('obj') is None or is_this_obj(si))))):
            return False
        def names_param(a):
            return any((w.get('k') == 'var' and w.get('id') == pid) for w in walk_expr(a))
        if not any(names_param(a) for a in si.get('a', [])):
            return False
        member_helper = bool(si.get('clsp'))
        refs_storage = member_helper or any((w.get('k') == 'mem' and w.get('f') in self.storage) or (w.get('k') == 'call' and (w.get('pq') or '').split('::')[-1] in ('str', 'data')) or
                                            (w.get('k') == 'var' and w.get('vk') == 'local' and T(f, w.get('t')).get('ptr')) for a in si.get('a', []) for w in walk_expr(a))
        helper = [g for g in self.prog.fn(si['fn'], si.get('sig')) if g.get('body')]
        if not helper:
            return False
        neg = any(st.get('k') == 'return' and any((const_val(w) or 0) < 0 for w in walk_expr(st.get('e') or {}) if w.get('k') in ('int', 'un', 'cast', 'paren')) for st in ir.walk_stmts(helper[0]['body']))
        cmpb = any(w.get('k') == 'bin' and w.get('op') in ('<', '>', '<=', '>=') for w in fn_exprs(helper[0]))
        if member_helper:
            refs_storage = any((w.get('k') == 'mem' and w.get('f') in self.storage) or (w.get('k') == 'call' and (w.get('pq') or '').split('::')[-1] in ('str', 'data')) for w in fn_exprs(helper[0]))
        return bool(refs_storage and neg and cmpb)

    def alias_vars(self, f, pid):
        """Locals that record whether / where the parameter points into the receiver's storage, computed before any invalidation:
        int form (index or offset, negative = does not alias):  cond ? idx : -1   or a helper call taking the parameter and a
        storage pointer whose body returns a negative literal on some path;  bool form: the range test itself."""
        out = set()
        for s in ir.walk_stmts(f['body']):
            if s.get('k') != 'decl':
                continue
            for v in s['vars']:
                ini = v.get('init')
                if ini is None:
                    continue
                tv = T(f, v['t'])
                if not tv.get('int') or tv.get('bool'):
                    continue
                has_p = any(w.get('k') == 'var' and w.get('id') == pid for w in walk_expr(ini))
                if not has_p:
                    continue
                si = strip(ini)
                if si.get('k') == 'cond' and (self.is_range_test(f, si['c'], pid) or self.is_range_test(f, q.expand(f, si['c'], bools_only=True), pid)):
                    out.add(v['id'])
                elif self.offset_helper_call(f, si, pid):
                    out.add(v['id'])
        return out

    def analyse_member(self, f, pidx, callee_summaries):
        """Returns list of (line, description) of uses of parameter pidx after an invalidation of the receiver."""
        p = f['params'][pidx]
        pid = p['id']
        cfg = self.cfg(f)
        avars = self.alias_vars(f, pid)
        problems = []
        seen = set()
        # the parameter as the target of a plain assignment is written, not read
        lhs_nodes = set()
        for e in fn_exprs(f):
            if e.get('k') == 'bin' and e.get('op') == '=':
                l = strip_lv(e['x'])
                if l.get('k') == 'var' and l.get('id') == pid:
                    lhs_nodes.add(id(l))

        # `&x` only takes the address of what the reference designates: not a use.  Pointer locals holding that address are
        # tracked (tainted); dereferencing a tainted pointer is the use.  Re-assigning the pointer (to a storage-based
        # address) clears it.
        addr_nodes = set()
        for e in fn_exprs(f):
            if e.get('k') == 'un' and e.get('op') == '&':
                t_ = strip_lv(e['e'])
                if t_.get('k') == 'var' and t_.get('id') == pid:
                    addr_nodes.add(id(t_))

        def is_addr_of_param(x):
            x = strip(x) if isinstance(x, dict) else {}
            while x.get('k') == 'cast':
                x = strip(x['e'])
            return x.get('k') == 'un' and x.get('op') == '&' and strip_lv(x['e']).get('k') == 'var' and strip_lv(x['e']).get('id') == pid

        def reads_param(e):
            return e.get('k') == 'var' and e.get('id') == pid and id(e) not in lhs_nodes and id(e) not in addr_nodes

        def step(n, state):
            # state = (st, tainted pointer locals); st in 'fresh', 'stale', 'safe'
            st, taint = state
            if n.kind not in ('ev', 'decl', 'init', 'br', 'sw', 'ret'):
                return state
            e = n.e
            if n.kind == 'decl':
                info = n.info or {}
                if info.get('init') is not None and is_addr_of_param(info['init']):
                    return (st, taint | frozenset([info['id']]))
                return state
            if e is None:
                return state
            k = e.get('k')
            if n.kind == 'ev':
                if reads_param(e):
                    if (st == 'stale' or st.startswith('shift')) and e.get('l') not in seen:
                        seen.add(e.get('l'))
                        problems.append((e.get('l', 0), 'parameter `%s` is used after the receiver\'s storage may have been released or moved' % p['n']))
                    return state
                if taint and ((k == 'un' and e.get('op') == '*') or k == 'idx'):
                    base = strip(e['e'] if k == 'un' else e['b'])
                    while base.get('k') == 'cast':
                        base = strip(base['e'])
                    if base.get('k') == 'var' and base.get('id') in taint and (st == 'stale' or st.startswith('shift')) and e.get('l') not in seen:
                        seen.add(e.get('l'))
                        problems.append((e.get('l', 0), 'parameter `%s` is used (through the pointer `%s`) after the receiver\'s storage may have been released or moved' % (p['n'], base.get('n'))))
                    return state
                if k == 'bin' and e.get('op') == '=' and strip_lv(e['x']).get('k') == 'var' and strip_lv(e['x']).get('id') == pid:
                    return ('fresh' if (st == 'stale' or st.startswith('shift')) else st, taint)     # re-based
                if k == 'bin' and e.get('op') == '=' and strip_lv(e['x']).get('k') == 'var' and T(f, strip_lv(e['x']).get('t')).get('ptr'):
                    vid = strip_lv(e['x'])['id']
                    if is_addr_of_param(e['y']):
                        return (st, taint | frozenset([vid]))
                    if vid in taint:
                        return (st, taint - frozenset([vid]))
                    return state
                if k == 'un' and e.get('op') in ('pre++', 'post++', 'pre--', 'post--'):
                    t_ = strip_lv(e['e'])
                    if st.startswith('shifthit:') and e['op'] in ('pre++', 'post++') and t_.get('k') == 'var' and (t_.get('id') in taint or t_.get('id') == pid):
                        return ('fresh', taint)         # the pointer follows its element into the slot it was moved to
                    return state
                if k == 'call':
                    # forwarding an argument derived from the parameter to a callee that is unsafe for that position
                    key = e.get('pq')
                    for j, a in enumerate(e.get('a', [])):
                        if (key, j) in callee_summaries and any(reads_param(w) for w in walk_expr(a)):
                            recv_owned = is_this_obj(e) or (e.get('obj') is not None and rooted_in_this_field(e['obj'], tuple(self.storage) + tuple(self.sub_objects)))
                            if recv_owned and st != 'safe' and (e.get('l'), key) not in seen:
                                seen.add((e.get('l'), key))
                                problems.append((e.get('l', 0), 'argument derived from `%s` is forwarded to %s, which uses it after invalidating the same storage' % (p['n'], key)))
                if self.invalidates(f, e):
                    sh = self.shift_source(f, e)
                    if sh is not None and st == 'fresh':
                        return ('shifted:' + sh, taint)
                    if st == 'fresh' or st.startswith('shift'):
                        return ('stale', taint)
                    return (st, taint)
            return state

        def edge(n, lab, state):
            st, taint = state
            r = edge1(n, lab, st)
            return None if r is None else (r, taint)

        def edge1(n, lab, st):
            if n.kind != 'br' or lab not in (True, False):
                return st
            c = strip(q.expand(f, n.e, bools_only=True))
            # the range test itself (possibly through a named bool): the false edge means "does not alias"
            neg = False
            while c.get('k') == 'un' and c.get('op') == '!':
                c = strip(c['e'])
                neg = not neg
            if st.startswith('shifted:') and c.get('k') == 'bin' and c.get('op') in ('<', '>='):
                al_ = self.param_pointers(f, pid)
                lx, ly = strip(c['x']), strip(c['y'])
                if lx.get('k') == 'var' and (lx.get('id') in al_ or lx.get('id') == pid):
                    by = strip(q.expand(f, c['y']))
                    while by.get('k') in ('cast', 'paren'):
                        by = strip(by['e'])
                    if pe(by) == st[len('shifted:'):]:
                        in_tail = (lab == (c['op'] == '>=')) != neg
                        return ('shifthit:' + st[len('shifted:'):]) if in_tail else 'fresh'
            pol_ = self.range_helper_polarity(f, c, pid)
            if pol_ is not None:
                inside_truth = pol_ != neg
                if lab != inside_truth:
                    return 'safe'
                return st
            if self.is_range_test(f, c, pid):
                # `p >= lo && p <= hi` is true inside the storage; `p < lo || p > hi` (its De Morgan form) is true outside.  The
                # CFG hands over the single comparisons of such a test one by one: which truth value means "outside" follows from
                # the side of the range the comparison looks at (lo = the storage pointer, hi = storage pointer + length)
                outside_form = c.get('k') == 'bin' and c.get('op') == '||'
                if c.get('k') == 'bin' and c.get('op') in ('<', '>', '<=', '>='):
                    px = any(w.get('k') == 'var' and w.get('id') == pid for w in walk_expr(c['x']))
                    other = q.expand(f, c['y'] if px else c['x'])
                    op_ = c['op'] if px else {'<': '>', '>': '<', '<=': '>=', '>=': '<='}[c['op']]
                    hi = any(w.get('k') == 'bin' and w.get('op') == '+' for w in walk_expr(other))
                    if (not hi and op_ == '<') or (hi and op_ in ('>', '>=')):
                        outside_form = True             # true means outside
                    elif (not hi and op_ == '>=') or (hi and op_ in ('<', '<=')):
                        outside_form = False            # false means outside
                    else:
                        return st
                noalias = (True if neg else False) != outside_form
                if lab == noalias:
                    return 'safe'
                return st
            if c.get('k') == 'bin' and c.get('op') in ('<', '>=', '>', '<=', '==', '!='):
                x, y = strip(c['x']), strip(c['y'])
                v = None
                if ((x.get('k') == 'var' and x.get('id') in avars) or self.offset_helper_call(f, x, pid)) and const_val(c['y']) is not None:
                    v, cst, op = x, const_val(c['y']), c['op']
                elif ((y.get('k') == 'var' and y.get('id') in avars) or self.offset_helper_call(f, y, pid)) and const_val(c['x']) is not None:
                    v, cst, op = y, const_val(c['x']), {'<': '>', '>': '<', '<=': '>=', '>=': '<='}.get(c['op'], c['op'])
                if v is not None:
                    def ev(val):
                        return {'<': val < cst, '>': val > cst, '<=': val <= cst, '>=': val >= cst, '==': val == cst, '!=': val != cst}[op]
                    noalias_truth = ev(-1)
                    if neg:
                        noalias_truth = not noalias_truth
                    if ev(0) != ev(-1) and lab == noalias_truth:
                        return 'safe'
            return st

        reached, parent = cfgm.dataflow(cfg, ('fresh', frozenset()), step, edge)
        self.ctx.evaluations += sum(len(v) for v in reached.values())
        return problems

    def run(self, rule='R-ALIAS', extern_summaries=None, report=True):
        """Fixpoint over the members; returns the summaries {(pq, param index)} found unsafe."""
        unsafe = dict(extern_summaries or {})
        results = {}
        # construction helpers: non-public members that only constructors (or other construction helpers) call work on a receiver
        # that has no storage yet - nothing the argument could point into - exactly like the constructors themselves
        callers = {}
        for f in self.members:
            if not f.get('body'):
                continue
            for e in fn_exprs(f):
                if e.get('k') == 'call' and e.get('clsp') == self.cls and (e.get('obj') is None or is_this_obj(e)):
                    callers.setdefault(e.get('pq'), set()).add(f.get('pq') if f.get('kind') != 'ctor' else '<ctor>')
        ctor_only = set()
        grew = True
        while grew:
            grew = False
            for f in self.members:
                pq_ = f.get('pq')
                if f.get('kind') in ('ctor', 'dtor') or pq_ in ctor_only or f.get('acc') not in ('private', 'protected'):
                    continue
                cs = callers.get(pq_)
                if cs and all(c_ == '<ctor>' or c_ in ctor_only for c_ in cs):
                    ctor_only.add(pq_)
                    grew = True
        for rnd in range(4):
            changed = False
            for f in self.members:
                if f.get('kind') == 'ctor' or f.get('kind') == 'dtor' or not f.get('body') or f.get('pq') in ctor_only:
                    continue
                for j, p in enumerate(f['params']):
                    if not self.risk(f, p):
                        continue
                    probs = self.analyse_member(f, j, unsafe)
                    results[(f['q'], f['sig'], j)] = (f, p, probs)
                    if probs and (f['pq'], j) not in unsafe:
                        unsafe[(f['pq'], j)] = True
                        changed = True
            if not changed:
                break
        n = 0
        if report:
            for (qn, sig, j), (f, p, probs) in sorted(results.items(), key=lambda kv: kv[0][:2]):
                n += 1
                self.ctx.analysed(f)
                role = '%s%s:param %s' % (f['n'], '', p['n'])
                if probs:
                    line, desc = probs[0]
                    self.ctx.violation(rule, f['pq'], role, fwhere(f, line), '%s (instantiation %s%s); %d site(s): %s' % (
                        desc, f['q'], f['sig'], len(probs), ', '.join(':%d' % l for l, _ in probs)))
                else:
                    self.ctx.ok(rule, f['pq'], role, fwhere(f), 'no use of the argument after an invalidation of the receiver (or guarded by the alias-index idiom)',
                                nontrivial=f['pq'] in self.inv)
        return unsafe, n
