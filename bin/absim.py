"""Abstract interpretation of a codec body over bit-provenance x interval values (reduced product), with automatic case
splitting of input bits.

A value is either a Python int (fully known) or a BV: a vector of W abstract bits - '0', '1', 'X' (unknown) or a symbol
(source name, bit index) meaning "a copy of that input bit" - together with a signed interval [lo, hi].  The statement and
expression interpreter is scansim.Run (unchanged control structure); BV implements the arithmetic, so shifts, masks and
ors move symbols exactly, additions of constants are exact where no carry can touch a symbol, and every comparison that
drives control must be *decided by the abstract value for all concrete values it stands for* - otherwise the run stops
with NeedSplit naming an input bit, and `explore` re-runs the case with that bit fixed to 0 and to 1.  The leaves of the
case tree therefore partition the input region; on each leaf the function's outputs are compared, bit for bit, with a
reference computed by the same BV arithmetic.  Nothing is executed: a leaf stands for every input with that bit pattern."""
import scansim
from scansim import Unsupported

W = 64
MASK = (1 << W) - 1


class NeedSplit(Unsupported):
    def __init__(self, sym, why):
        Unsupported.__init__(self, 'control or a carry depends on input bit %s (%s)' % (sym, why))
        self.sym = sym


class Infeasible(Exception):
    pass


def const_bits(v):
    v &= MASK
    return [('1' if (v >> i) & 1 else '0') for i in range(W)]


def _signed(u):
    return u - (1 << W) if u >> (W - 1) else u


class BV(object):
    __slots__ = ('bits', 'lo', 'hi')

    def __init__(self, bits, lo, hi):
        self.bits, self.lo, self.hi = bits, lo, hi

    def __repr__(self):
        return 'BV[%s | %d..%d]' % (show(self.bits, 24), self.lo, self.hi)

    # ---- helpers
    def top_symbol(self):
        for b in reversed(self.bits):
            if isinstance(b, tuple):
                return b
        return None

    def _undecided(self, why):
        s = self.top_symbol()
        if s is None:
            raise Unsupported('undecided %s on a value with unknown bits' % why)
        raise NeedSplit(s, why)

    # ---- truth and comparisons (must be decided for every concrete value)
    def __bool__(self):
        if self.lo > 0 or self.hi < 0 or '1' in self.bits:
            return True
        self._undecided('test against zero')
    __nonzero__ = __bool__

    def _cmp(self, o, op):
        alo, ahi = self.lo, self.hi
        if isinstance(o, BV):
            blo, bhi = o.lo, o.hi
        elif isinstance(o, int):
            blo = bhi = o
        else:
            raise Unsupported('comparison of an abstract value with %r' % (o,))
        if op == '<':
            if ahi < blo:
                return True
            if alo >= bhi:
                return False
        elif op == '<=':
            if ahi <= blo:
                return True
            if alo > bhi:
                return False
        elif op == '==':
            if ahi < blo or alo > bhi:
                return False
            if isinstance(o, int):
                ob = const_bits(o)
                if any(x in ('0', '1') and x != y for x, y in zip(self.bits, ob)):
                    return False
        (o if isinstance(o, BV) and self.top_symbol() is None else self)._undecided('comparison %s' % op)

    def __lt__(self, o):
        return self._cmp(o, '<')

    def __le__(self, o):
        return self._cmp(o, '<=')

    def __gt__(self, o):
        return not self._cmp(o, '<=')

    def __ge__(self, o):
        return not self._cmp(o, '<')

    def __eq__(self, o):
        return self._cmp(o, '==')

    def __ne__(self, o):
        return not self._cmp(o, '==')

    __hash__ = None

    # ---- arithmetic
    def __and__(self, o):
        if isinstance(o, int):
            ob = const_bits(o)
            bits = [('0' if y == '0' else x) for x, y in zip(self.bits, ob)]
            lo, hi = -(1 << (W - 1)), (1 << (W - 1)) - 1
            low0 = (o & MASK)
            k = 0
            while k < W and not (low0 >> k) & 1:
                k += 1
            contiguous_high = o < 0 and (o & MASK) == (MASK >> k) << k
            if contiguous_high:
                lo, hi = self.lo & o, self.hi & o          # clearing low bits is monotone
            elif o >= 0:
                lo, hi = 0, o
                if self.lo >= 0:
                    hi = min(hi, self.hi)
                    n = o.bit_length()
                    if o == ((1 << n) - 1) >> k << k and self.hi < (1 << n):
                        lo, hi = self.lo & o, self.hi & o  # high mask below the value's top bit: monotone
            return mk(bits, lo, hi)
        if isinstance(o, BV):
            bits = []
            for x, y in zip(self.bits, o.bits):
                if x == '0' or y == '0':
                    bits.append('0')
                elif x == '1':
                    bits.append(y)
                elif y == '1':
                    bits.append(x)
                elif x == y:
                    bits.append(x)
                else:
                    bits.append('X')
            lo, hi = -(1 << (W - 1)), (1 << (W - 1)) - 1
            if self.lo >= 0 or o.lo >= 0:
                lo = 0
                hi = min([v.hi for v in (self, o) if v.lo >= 0])
            return mk(bits, lo, hi)
        raise Unsupported('& with %r' % (o,))
    __rand__ = __and__

    def __or__(self, o):
        ob = const_bits(o) if isinstance(o, int) else o.bits if isinstance(o, BV) else None
        if ob is None:
            raise Unsupported('| with %r' % (o,))
        bits = []
        for x, y in zip(self.bits, ob):
            if x == '1' or y == '1':
                bits.append('1')
            elif x == '0':
                bits.append(y)
            elif y == '0':
                bits.append(x)
            elif x == y:
                bits.append(x)
            else:
                bits.append('X')
        return mk(bits, -(1 << (W - 1)), (1 << (W - 1)) - 1)
    __ror__ = __or__

    def __xor__(self, o):
        ob = const_bits(o) if isinstance(o, int) else o.bits if isinstance(o, BV) else None
        if ob is None:
            raise Unsupported('^ with %r' % (o,))
        bits = []
        for x, y in zip(self.bits, ob):
            if y == '0':
                bits.append(x)
            elif x == '0':
                bits.append(y)
            elif x in ('0', '1') and y in ('0', '1'):
                bits.append('1' if x != y else '0')
            else:
                bits.append('X')
        return mk(bits, -(1 << (W - 1)), (1 << (W - 1)) - 1)
    __rxor__ = __xor__

    def __invert__(self):
        bits = [('1' if x == '0' else '0' if x == '1' else 'X') for x in self.bits]
        return mk(bits, -self.hi - 1, -self.lo - 1)

    def __neg__(self):
        return (~self) + 1

    def __lshift__(self, n):
        if not isinstance(n, int):
            raise Unsupported('shift by an abstract amount')
        bits = ['0'] * n + self.bits[:W - n]
        return mk(bits, self.lo << n, self.hi << n)

    def __rshift__(self, n):
        if not isinstance(n, int):
            raise Unsupported('shift by an abstract amount')
        bits = self.bits[n:] + [self.bits[W - 1]] * n
        return mk(bits, self.lo >> n, self.hi >> n)

    def __rlshift__(self, o):
        raise Unsupported('shift by an abstract amount')
    __rrshift__ = __rlshift__

    def _add_const(self, c):
        if c == 0:
            return self
        cb = const_bits(c)
        # ripple addition: known bits are added exactly, a symbol passes unchanged while neither a carry nor a set bit
        # of the constant meets it; from the first symbol that a carry / constant bit does meet, the result is unknown
        bits = []
        carry = 0
        clash = None
        for x, y in zip(self.bits, cb):
            yb = 1 if y == '1' else 0
            if clash is not None:
                bits.append('X')
            elif x in ('0', '1'):
                t = (1 if x == '1' else 0) + yb + carry
                bits.append('1' if t & 1 else '0')
                carry = t >> 1
            elif yb == 0 and carry == 0:
                bits.append(x)
            else:
                clash = x
                bits.append('X')
        if isinstance(clash, tuple):
            CLASHES.append(clash)
        elif clash is not None:
            # unknown (not symbolic) bit met by a carry: nothing to split on
            pass
        return mk(bits, self.lo + c, self.hi + c)

    def __add__(self, o):
        if isinstance(o, int):
            return self._add_const(o)
        if isinstance(o, BV):
            if all(x == '0' or y == '0' for x, y in zip(self.bits, o.bits)):
                bits = [(y if x == '0' else x) for x, y in zip(self.bits, o.bits)]
                return mk(bits, self.lo + o.lo, self.hi + o.hi)
            for v in (self, o):
                s = v.top_symbol()
                if s is not None:
                    CLASHES.append(s)
                    break
            return mk(['X'] * W, self.lo + o.lo, self.hi + o.hi)
        if isinstance(o, tuple):
            return NotImplemented
        raise Unsupported('+ with %r' % (o,))
    __radd__ = __add__

    def __sub__(self, o):
        if isinstance(o, int):
            return self._add_const(-o)
        if isinstance(o, BV):
            for v in (self, o):
                s = v.top_symbol()
                if s is not None:
                    CLASHES.append(s)
                    break
            return mk(['X'] * W, self.lo - o.hi, self.hi - o.lo)
        raise Unsupported('- with %r' % (o,))

    def __rsub__(self, o):
        if isinstance(o, int):
            return (-self)._add_const(o)
        raise Unsupported('- with %r' % (o,))

    def __mul__(self, o):
        if isinstance(o, int) and o > 0 and o & (o - 1) == 0:
            return self << (o.bit_length() - 1)
        if isinstance(o, int) and o == 0:
            return 0
        s = self.top_symbol()
        if s is not None:
            CLASHES.append(s)
        if isinstance(o, int):
            a, b = self.lo * o, self.hi * o
            return mk(['X'] * W, min(a, b), max(a, b))
        raise Unsupported('* with %r' % (o,))
    __rmul__ = __mul__

    def candidates(self, limit=64):
        """the concrete values this abstract value admits (needs few free bits)"""
        free = [i for i, x in enumerate(self.bits) if x not in ('0', '1')]
        if len(free) > 6:
            self._undecided('table index')
        base = sum(1 << i for i, x in enumerate(self.bits) if x == '1')
        out = []
        for m in range(1 << len(free)):
            v = base
            for j, i in enumerate(free):
                if (m >> j) & 1:
                    v |= 1 << i
            v = _signed(v)
            if self.lo <= v <= self.hi:
                out.append(v)
        if not out:
            raise Infeasible()
        return out

    def wrap(self, nbits, signed):
        if nbits >= W:
            return self
        fill = self.bits[nbits - 1] if signed else '0'
        bits = self.bits[:nbits] + [fill] * (W - nbits)
        lo, hi = self.lo, self.hi
        if signed:
            tl, th = -(1 << (nbits - 1)), (1 << (nbits - 1)) - 1
        else:
            tl, th = 0, (1 << nbits) - 1
        if tl <= lo and hi <= th:
            pass
        elif signed and (1 << (nbits - 1)) <= lo and hi <= (1 << nbits) - 1:
            lo, hi = lo - (1 << nbits), hi - (1 << nbits)
        elif not signed and tl <= lo + (1 << nbits) and hi + (1 << nbits) <= th and hi < 0:
            lo, hi = lo + (1 << nbits), hi + (1 << nbits)
        else:
            lo, hi = tl, th
        return mk(bits, lo, hi)


CLASHES = []


class TabVal(object):
    """element of a constant table at an abstract index (an opaque value: only stored, loaded and compared for identity)"""
    __slots__ = ('table', 'idx')

    def __init__(self, table, idx):
        self.table, self.idx = table, idx

    def __repr__(self):
        return 'TAB[%s]' % (show(self.idx.bits, 8) if isinstance(self.idx, BV) else self.idx)


def tab(table, idx):
    """reference-side table look-up: the element for a known index, TabVal otherwise"""
    if isinstance(idx, int):
        return table[idx]
    return TabVal(tuple(table), idx)


def mk(bits, lo, hi):
    """normalised abstract value: interval tightened by the bits, unknown bits fixed by the interval; an int when known"""
    umin = sum(1 << i for i, x in enumerate(bits) if x == '1')
    umax = sum(1 << i for i, x in enumerate(bits) if x != '0')
    top = bits[W - 1]
    if top == '0':
        lo, hi = max(lo, umin), min(hi, umax)
    elif top == '1':
        lo, hi = max(lo, umin - (1 << W)), min(hi, umax - (1 << W))
    if lo > hi:
        raise Infeasible()
    if lo == hi:
        return lo
    if (lo >= 0) == (hi >= 0):
        # bits in the common prefix of lo and hi are constant over the interval: fixes unknown ('X') bits only
        a, b = lo & MASK, hi & MASK
        bits = list(bits)
        for i in range(W - 1, -1, -1):
            if (a >> i) & 1 != (b >> i) & 1:
                break
            if bits[i] == 'X':
                bits[i] = '1' if (a >> i) & 1 else '0'
            elif bits[i] in ('0', '1') and bits[i] != ('1' if (a >> i) & 1 else '0'):
                raise Infeasible()
    if all(x in ('0', '1') for x in bits):
        return _signed(sum(1 << i for i, x in enumerate(bits) if x == '1'))
    return BV(bits, lo, hi)


def join(vals):
    """least upper bound of ints / BVs: equal bits kept, others unknown"""
    bl = [to_bits(v, W) for v in vals]
    bits = [(col[0] if all(x == col[0] for x in col) else 'X') for col in zip(*bl)]
    lo = min(v.lo if isinstance(v, BV) else v for v in vals)
    hi = max(v.hi if isinstance(v, BV) else v for v in vals)
    return mk(bits, lo, hi)


def show(bits, n=8, names=None):
    out = []
    for b in reversed(bits[:n]):
        if b in ('0', '1', 'X'):
            out.append(b)
        else:
            out.append('%s%d' % ((names or {}).get(b[0], b[0]), b[1]))
    return ' '.join(out)


def to_bits(v, n):
    if isinstance(v, BV):
        return list(v.bits[:n])
    if isinstance(v, int):
        return const_bits(v)[:n]
    return ['X'] * n


# ------------------------------------------------------------------ sources

def _min_ge(known, lo, width):
    """smallest v >= lo (0 <= v < 2^width) whose bits agree with `known` ({bit: 0/1}); None if there is none"""
    def fits(v):
        return all((v >> i) & 1 == b for i, b in known.items())
    if lo < 0:
        lo = 0
    if lo >= 1 << width:
        return None
    if fits(lo):
        return lo
    best = None
    for j in range(width):
        # keep the bits of lo above j, raise bit j from 0 to 1, fill the rest minimally
        if (lo >> j) & 1:
            continue
        if known.get(j, 1) != 1:
            continue
        v = (lo >> (j + 1) << (j + 1)) | (1 << j)
        if not all((v >> i) & 1 == b for i, b in known.items() if i > j):
            continue
        for i in range(j):
            if known.get(i) == 1:
                v |= 1 << i
        if best is None or v < best:
            best = v
    return best


def _max_le(known, hi, width):
    full = (1 << width) - 1
    if hi > full:
        hi = full
    if hi < 0:
        return None
    r = _min_ge(dict((i, 1 - b) for i, b in known.items()), full - hi, width)
    return None if r is None else full - r


class Source:
    """one symbolic input element: `width` bits named (name, i), fixed bits and an unsigned interval"""

    def __init__(self, name, width, lo, hi, fixed=None, signed=False):
        self.name, self.width, self.lo, self.hi, self.fixed, self.signed = name, width, lo, hi, dict(fixed or {}), signed

    def value(self, assign):
        known = dict(self.fixed)
        for (nm, i), b in assign.items():
            if nm == self.name:
                known[i] = b
        lo = _min_ge(known, self.lo, self.width)
        hi = _max_le(known, self.hi, self.width)
        if lo is None or hi is None or lo > hi:
            raise Infeasible()
        # bits constant over [lo, hi] (common prefix) are known as well
        for i in range(self.width - 1, -1, -1):
            if (lo >> i) & 1 != (hi >> i) & 1:
                break
            known.setdefault(i, (lo >> i) & 1)
        bits = [(('1' if known[i] else '0') if i in known else (self.name, i)) if i < self.width else '0' for i in range(W)]
        v = mk(bits, lo, hi)
        if self.signed:
            v = v.wrap(self.width, True) if isinstance(v, BV) else scansim.wrap(v, {'bits': self.width, 'sg': True})
        return v

    def concrete(self, assign, pattern):
        """a concrete member of the case: free bits taken from `pattern`, clipped into the interval"""
        known = dict(self.fixed)
        for (nm, i), b in assign.items():
            if nm == self.name:
                known[i] = b
        lo = _min_ge(known, self.lo, self.width)
        hi = _max_le(known, self.hi, self.width)
        if lo is None or hi is None or lo > hi:
            raise Infeasible()
        v = 0
        for i in range(self.width):
            v |= (known[i] if i in known else (pattern >> i) & 1) << i
        v = min(max(v, lo), hi)
        r = _min_ge(known, v, self.width)
        if r is None or r > hi:
            r = _max_le(known, v, self.width)
        if self.signed and r >= 1 << (self.width - 1):
            r -= 1 << self.width
        return r


# ------------------------------------------------------------------ interpreter glue

_orig_wrap = scansim.wrap


def _wrap(v, t):
    if isinstance(v, BV):
        if t.get('bool'):
            return int(bool(v))
        b = t.get('bits')
        if not b:
            return v
        return v.wrap(b, t.get('sg', True))
    return _orig_wrap(v, t)


scansim.wrap = _wrap


class Leaf:
    def __init__(self, assign, values, result, expected):
        self.assign, self.values, self.result, self.expected = assign, values, result, expected


def explore(sources, run_fn, ref_fn, equal, max_leaves=4096):
    """Case tree over the input bits.  run_fn(values) / ref_fn(values) -> outputs (lists of ints / BVs) or raise
    Unsupported; equal(got, want) -> True / False / None (None: unknown bits left).  -> (leaves, mismatches, undecided)
    where mismatches = [(assign, values, got, want)], undecided = [(assign, reason)]"""
    leaves, bad, und = [], [], []
    stack = [{}]
    while stack:
        assign = stack.pop()
        if len(leaves) + len(stack) > max_leaves:
            und.append((assign, 'more than %d cases' % max_leaves))
            break
        try:
            values = [s.value(assign) for s in sources]
        except Infeasible:
            continue
        del CLASHES[:]
        split = None
        got = want = None
        try:
            got = run_fn(values)
            want = ref_fn(values)
        except NeedSplit as ns:
            split = ns.sym
        except Infeasible:
            continue
        except scansim.OOB as o:
            und.append((assign, 'out-of-bounds access in the abstract run: %s' % o))
            continue
        except Unsupported as u:
            und.append((assign, str(u)))
            continue
        except TypeError as te:
            und.append((assign, 'abstract value used where a number is required: %s' % te))
            continue
        if split is None:
            eq = equal(got, want)
            if eq is True:
                leaves.append(Leaf(assign, values, got, want))
                continue
            if eq is False:
                bad.append((assign, values, got, want))
                leaves.append(Leaf(assign, values, got, want))
                continue
            cl = [c for c in CLASHES if c not in assign]
            if not cl:
                und.append((assign, 'outputs keep unknown bits'))
                continue
            split = cl[0]
        if split in assign:
            und.append((assign, 'bit %s already fixed but still undecided' % (split,)))
            continue
        for b in (1, 0):
            a2 = dict(assign)
            a2[split] = b
            stack.append(a2)
    return leaves, bad, und


# ------------------------------------------------------------------ comparing outputs with a reference

def eq_out(nbits):
    """comparison of two output lists, element by element on the low nbits: True / False / None (unknown bits left)"""
    def eq(got, want):
        if got is None or want is None:
            return None
        if len(got) != len(want):
            return False
        unknown = False
        for g_, w_ in zip(got, want):
            if isinstance(g_, tuple) or isinstance(w_, tuple):
                if g_ != w_:
                    return False            # markers such as ('OOB', ...) never equal a value
                continue
            if isinstance(g_, TabVal) or isinstance(w_, TabVal):
                if not (isinstance(g_, TabVal) and isinstance(w_, TabVal)):
                    return False
                gi, wi = to_bits(g_.idx, W), to_bits(w_.idx, W)
                if 'X' in gi or 'X' in wi:
                    unknown = True
                    continue
                if gi != wi:
                    return False
                ks = g_.idx.candidates() if isinstance(g_.idx, BV) else [g_.idx]
                if any(not (0 <= k < len(g_.table) and 0 <= k < len(w_.table)) or g_.table[k] != w_.table[k] for k in ks):
                    return False
                continue
            gb, wb = to_bits(g_, nbits), to_bits(w_, nbits)
            if 'X' in gb or 'X' in wb:
                if any(x != y and x in ('0', '1') and y in ('0', '1') for x, y in zip(gb, wb)):
                    return False
                unknown = True
            elif gb != wb:
                return False
        return None if unknown else True
    return eq


def hexs(vals, width):
    m = (1 << width) - 1
    out = []
    for v in vals:
        if isinstance(v, int):
            out.append(('%0' + str(width // 4) + 'x') % (v & m))
        elif isinstance(v, tuple):
            out.append('<%s>' % (v[1] if len(v) > 1 else v[0]))
        else:
            out.append('?')
    return '[' + ' '.join(out) + ']'


def confirm(sources, assign, run_fn, ref_fn, nbits):
    """a symbolic mismatch is reported only with a concrete member of the case on which the two interpretations differ"""
    eq = eq_out(nbits)
    pats = (0, -1, 0x5555555555555555, 0xaaaaaaaaaaaaaaaa, 0x3333333333333333, 0x0f0f0f0f0f0f0f0f, 1, 0x80, 0x8000, 0x1248124812481248, 0x96c3a55a0ff01e87)
    for j in range(2 * len(pats)):
        try:
            # every source gets its own bit pattern (a permutation of sources must be visible), rotated per round
            vals = [s_.concrete(assign, pats[(j + 3 * i_) % len(pats)] if j < len(pats) else (pats[(j + i_) % len(pats)] >> (5 * i_ % 17))) for i_, s_ in enumerate(sources)]
            got, want = run_fn(vals), ref_fn(vals)
        except (Infeasible, Unsupported, TypeError):
            continue
        if eq(got, want) is False:
            return vals, got, want
    return None
