"""Guard reasoning by exhaustive evaluation over a small grid.

A rule of the form "at this site, <prop> holds whenever the structural guards of the site hold" is decided without
matching the textual shape of the guards: the opaque integer quantities the site depends on (a length query, a
parameter, a loop index: the *atoms*) are bound to every value of a small grid, each dominating guard is evaluated in
three-valued logic (true / false / unknown when it mentions something that is not an atom), and the property must hold
at every grid point that no guard excludes.  Guards that cannot be evaluated never exclude a point, so the verdict
"holds" is only given when the evaluable guards alone establish it.  Nothing of /repo is executed: only expression
trees of guards are evaluated (bytesets.Evaluator)."""
import itertools
from ir import strip, strip_lv, walk_expr, fn_exprs, T, pe
import q
from bytesets import Evaluator, Undecidable, LIBC


class Bound(Evaluator):
    """Evaluator with atoms (keyed by var id or by printed text for calls/members) bound to concrete values."""

    def __init__(self, prog, f, by_id, by_text, bind=None, defs=None):
        Evaluator.__init__(self, prog, f, dict(by_id))
        self.by_text = by_text
        self.bind = bind            # optional callable(expr) -> int or None
        self.defs = defs or {}      # var id -> expression (if-converted reaching definition of a reassigned local)

    def ev(self, e):
        if e is not None and self.bind is not None:
            r = self.bind(e)
            if r is not None:
                return r
        if e is not None and self.defs and e.get('k') == 'var' and e.get('id') in self.defs and e.get('id') not in self.env:
            return self.ev(self.defs[e['id']])
        if e is not None and self.by_text and e.get('k') in ('call', 'mem', 'un', 'idx'):
            t = pe(e)
            if t in self.by_text:
                return self.by_text[t]
            if e.get('k') == 'call':
                # atoms are keyed by their text after reading through single-assignment locals
                t2 = pe(q.expand(self.f, e))
                if t2 in self.by_text:
                    return self.by_text[t2]
        return Evaluator.ev(self, e)

    def sub_evaluator(self, g, env, arrays):
        sub = Bound(self.prog, g, env, self.by_text, bind=self.bind)
        sub.arrays = dict(arrays or {})
        sub.depth = self.depth + 1
        return sub

    def ev3(self, e):
        """three-valued truth of a condition: True / False / None (mentions something unbound)"""
        x = e
        while isinstance(x, dict) and x.get('k') in ('cast', 'temp', 'paren') and x.get('ck', 'NoOp') in ('NoOp', 'LValueToRValue', 'IntegralToBoolean', 'PointerToBoolean', 'IntegralCast'):
            if x.get('k') == 'cast' and x.get('ck') in ('IntegralToBoolean', 'PointerToBoolean', 'IntegralCast'):
                break
            x = x['e']
        if isinstance(x, dict) and x.get('k') == 'bin' and x.get('op') in ('&&', '||'):
            a, b = self.ev3(x['x']), self.ev3(x['y'])
            if x['op'] == '&&':
                if a is False or b is False:
                    return False
                return True if (a is True and b is True) else None
            if a is True or b is True:
                return True
            return False if (a is False and b is False) else None
        if isinstance(x, dict) and x.get('k') == 'un' and x.get('op') == '!':
            a = self.ev3(x['e'])
            return None if a is None else (not a)
        if isinstance(x, dict) and x.get('k') == 'var' and x.get('vk') == 'local' and x.get('id') not in self.env:
            d = q.single_defs(self.f).get(x['id'])
            if d is not None and T(self.f, x.get('dt') or x.get('t')).get('bool'):
                return self.ev3(d)
        try:
            return bool(self.ev(e))
        except Undecidable:
            return None


def case_match(v, label):
    lo, hi = label[0], (label[1] if len(label) > 1 else None)
    if lo is None:
        return False
    return lo <= v <= hi if hi is not None else v == lo


def admitted(ev, guards, G=None):
    """False when some evaluable guard of the site excludes the point bound in ev (switch case labels included)."""
    for c, pol, kind in guards:
        if kind == 'case':
            try:
                v = ev.ev(c)
            except Undecidable:
                continue
            explicit = [l for l in pol if l != ('default',)]
            hit = any(case_match(v, l) for l in explicit)
            if not hit and ('default',) in pol:
                every = G.switch_labels.get(id(c)) if G is not None else None
                if every is None:
                    continue
                hit = not any(case_match(v, l) for l in every)
            if not hit:
                return False
            continue
        if not isinstance(pol, bool):
            continue
        r = ev.ev3(c)
        if r is not None and r != pol:
            return False
    return True


def admitted3(ev, guards, G=None, relevant=None):
    """Three-valued: False when some guard definitely excludes the point, True when every guard definitely admits it,
    None when no guard excludes it but some guard could not be evaluated.  relevant(cond) -> False drops a guard that
    does not speak about the bound quantity at all (a loop bound around a byte-order dependent site)."""
    unknown = False
    for c, pol, kind in guards:
        if relevant is not None and isinstance(c, dict) and not relevant(c):
            continue
        if kind == 'case':
            if admitted(ev, [(c, pol, kind)], G) is False:
                return False
            try:
                ev.ev(c)
            except Undecidable:
                unknown = True
            continue
        if not isinstance(pol, bool):
            continue
        r = ev.ev3(c)
        if r is None:
            unknown = True
        elif r != pol:
            return False
    return None if unknown else True


def assigned_vars(f):
    """ids of variables written after their declaration (assignment, compound assignment, ++/--, address taken)"""
    c = f.get('_assigned_vars')
    if c is not None:
        return c
    out = set()
    for e in fn_exprs(f):
        k = e.get('k')
        tgt = None
        if k == 'bin' and e.get('op', '').endswith('=') and e['op'] not in ('==', '!=', '<=', '>='):
            tgt = strip_lv(e['x'])
        elif k == 'un' and e.get('op') in ('post++', 'post--', 'pre++', 'pre--', '&'):
            tgt = strip_lv(e['e'])
        if tgt is not None and tgt.get('k') == 'var':
            out.add(tgt['id'])
    f['_assigned_vars'] = out
    return out


def atoms_of(prog, f, e, allow_assigned=()):
    """The opaque integer leaves expression e depends on, after reading through single-assignment locals.
    -> (by_id {var id: name}, by_text {printed call/member: node}), or raises Undecidable when e depends on a variable
    that is reassigned (its value at the guard and at the site may differ)."""
    by_id, by_text = {}, {}
    ex = q.expand(f, e)

    def visit(x):
        if not isinstance(x, dict):
            return
        k = x.get('k')
        if k == 'var':
            if 'cv' in x:
                return
            if x.get('id') in assigned_vars(f) and x.get('id') not in allow_assigned:
                raise Undecidable('`%s` is reassigned between its guards and its use' % x.get('n'))
            by_id[x['id']] = x.get('n')
            return
        if k == 'call':
            fn = x.get('fn') or ''
            if fn in LIBC and not x.get('clsp'):
                for a in x.get('a', []):
                    visit(a)
                return
            cands = [g for g in prog.fn(fn, x.get('sig')) if g.get('body')]
            pure_scalar = cands and not x.get('obj') and all(T(cands[0], p['t']).get('int') and not T(cands[0], p['t']).get('ref') for p in cands[0]['params'])
            if pure_scalar:
                for a in x.get('a', []):
                    visit(a)
                return
            by_text[pe(x)] = x
            return
        if k == 'mem':
            by_text[pe(x)] = x
            return
        if k in ('int', 'str', 'sizeof'):
            return
        from ir import expr_children
        for c in expr_children(x):
            visit(c)
    visit(ex)
    return by_id, by_text


def decide(prog, f, guards, prop, by_id, by_text, grid, extra_guards=(), G=None, confirm=None):
    """prop(ev) -> bool (may raise Undecidable).  guards: tuples from q.Guarded.of().
    -> ('holds', points checked) | ('fails', witness dict) | ('undecided', reason)"""
    ids = sorted(by_id)
    texts = sorted(by_text)
    if len(ids) + len(texts) > 3:
        return 'undecided', 'depends on %d independent quantities' % (len(ids) + len(texts))
    checked = 0
    for vals in itertools.product(grid, repeat=len(ids) + len(texts)):
        bi = dict(zip(ids, vals[:len(ids)]))
        bt = dict(zip(texts, vals[len(ids):]))
        ev = Bound(prog, f, bi, bt)
        excluded = not admitted(ev, guards, G)
        if not excluded:
            for c, pol in extra_guards:
                r = ev.ev3(c)
                if r is not None and r != pol:
                    excluded = True
                    break
        if excluded:
            continue
        checked += 1
        try:
            ok = prop(ev)
        except Undecidable as u:
            return 'undecided', str(u)
        if not ok and confirm is not None and not confirm(ev):
            continue            # the structural guards admit the point, but no control-flow path reaches the site for it
        if not ok:
            w = {by_id[i]: bi[i] for i in ids}
            w.update(bt)
            return 'fails', w
    return 'holds', checked


def writes_between(G, f, var_ids, guards, use):
    """a write to one of var_ids lies (in evaluation order) between a guard that mentions it and the guarded use:
    the guard no longer speaks about the value used.  -> the offending write expression or None"""
    pos = dict((id(x), i) for i, x in enumerate(G.order))
    upos = pos.get(id(use))
    if upos is None:
        return None
    for c, pol, kind in guards:
        if kind == 'case' or not isinstance(c, dict):
            continue
        if not any(w.get('k') == 'var' and w.get('id') in var_ids for w in walk_expr(c)):
            continue
        cpos = pos.get(id(c))
        if cpos is None:
            continue
        for e in G.order[cpos:upos]:
            k = e.get('k')
            tgt = None
            if k == 'bin' and e.get('op', '').endswith('=') and e['op'] not in ('==', '!=', '<=', '>='):
                tgt = strip_lv(e['x'])
            elif k == 'un' and e.get('op') in ('post++', 'post--', 'pre++', 'pre--'):
                tgt = strip_lv(e['e'])
            if tgt is not None and tgt.get('k') == 'var' and tgt.get('id') in var_ids:
                # the assignment whose own right-hand side contains the use stores after the use was evaluated
                if k == 'bin' and any(w is use for w in walk_expr(e.get('y'))):
                    continue
                # a write inside a branch that always leaves (return/break/continue) and does not contain the use is not on
                # any path from the guard to the use
                if any(b not in G.encl.get(id(use), ()) for b in G.encl.get(id(e), ())):
                    continue
                # a write inside the guard expression itself (while (i++ < n)) also counts
                return e
    return None


FALL = object()


def result3(ev, stmts):
    """Three-valued boolean result of a loop-free statement list under the bindings of ev: True / False / None (unknown),
    or FALL when control falls out of the end without returning.  Expression statements and declarations are skipped
    (locals are read through their single initialiser by the evaluator, reassigned ones are unknown); a loop or switch
    that contains a return makes the result unknown."""
    for st in stmts:
        k = st.get('k')
        if k == 'return':
            if st.get('e') is None:
                return None
            return ev.ev3(st['e'])
        if k == 'block':
            r = result3(ev, st['s'])
            if r is not FALL:
                return r
            continue
        if k == 'if':
            c = ev.ev3(st['c'])
            if c is None:
                a = result3(ev, [st['then']])
                b = result3(ev, [st['else']]) if st.get('else') else FALL
                if a is FALL and b is FALL:
                    continue
                return None
            br = st['then'] if c else st.get('else')
            if br is not None:
                r = result3(ev, [br])
                if r is not FALL:
                    return r
            continue
        if k in ('expr', 'decl', 'null', 'empty'):
            continue
        from ir import walk_stmts as _ws
        if any(x.get('k') == 'return' for x in _ws(st)):
            return None
    return FALL


def reaches(cfg, ev, target, avoid=None):
    """Path-sensitive reachability of the expression `target` in a control-flow graph under the bindings of ev: branch nodes
    whose condition evaluates (three-valued) to a definite value are followed only along that edge.  Sound for quantities
    that are not written on the way (callers bind parameters and single-assignment locals)."""
    seen = set()
    work = [cfg.entry]
    while work:
        n = work.pop()
        if n.id in seen:
            continue
        seen.add(n.id)
        if n.e is target or (n.kind == 'decl' and isinstance(n.info, dict) and n.info.get('init') is target):
            return True
        if avoid is not None and avoid(n):
            continue            # paths through this node do not count (e.g. the storage was released here)
        want = None
        if n.kind == 'br' and n.e is not None:
            cv = const_val_(n.e)
            want = bool(cv) if cv is not None else ev.ev3(n.e)
        swv = None
        if n.kind == 'sw' and n.e is not None:
            try:
                swv = ev.ev(n.e)
            except Undecidable:
                swv = None
            if not isinstance(swv, int):
                swv = None
        for m, lab in n.succ:
            if want is not None and lab in (True, False) and lab != want:
                continue
            if swv is not None:
                # a switch on an evaluable value: only the matching case label (else default / fall out) is followed
                hit = any((v2 is None and swv == v) or (v2 is not None and v <= swv <= v2) for v, v2 in n.info.get('cases', []) if v is not None)
                if isinstance(lab, tuple) and lab[0] == 'case':
                    if lab[1] is None or not ((lab[2] is None and swv == lab[1]) or (lab[2] is not None and lab[1] <= swv <= lab[2])):
                        continue
                elif lab in ('default', 'nodefault') and hit:
                    continue
            work.append(m)
    return False


def const_val_(e):
    from ir import const_val
    return const_val(e)


def ifconv(f, G, var_id, use):
    """If-converted reaching definition of a reassigned local at `use`: the declaration initialiser, overridden by each later
    plain assignment `v = E` (before the use) under the conditions that guard the assignment but not the use:
        int end = n; if (h > 0) { end = h; }  ... use(end)      ->      (h > 0) ? h : n
    -> expression, or None when a write is not a plain assignment, sits in a loop, or follows the use."""
    pos = dict((id(x), i) for i, x in enumerate(G.order))
    upos = pos.get(id(use))
    if upos is None:
        return None
    init = None
    for s_ in walk_stmts_(f.get('body')):
        if s_.get('k') == 'decl':
            for v in s_['vars']:
                if v['id'] == var_id:
                    init = v.get('init')
    if init is None:
        return None
    cur = init
    use_guards = G.of(use)
    writes = []
    for e in G.order:
        k = e.get('k')
        tgt = None
        if k == 'bin' and e.get('op', '').endswith('=') and e['op'] not in ('==', '!=', '<=', '>='):
            tgt = strip_lv(e['x'])
        elif k == 'un' and e.get('op') in ('post++', 'post--', 'pre++', 'pre--'):
            tgt = strip_lv(e['e'])
        if tgt is not None and tgt.get('k') == 'var' and tgt.get('id') == var_id:
            writes.append(e)
    for w in writes:
        if pos.get(id(w), 10 ** 9) > upos:
            continue            # after the use (no loop back edge is considered: loops are rejected below)
        if w.get('k') != 'bin' or w.get('op') != '=':
            return None
        wg = G.of(w)
        if any(kind == 'loop' for _, _, kind in wg) or any(kind == 'loop' for _, _, kind in use_guards):
            return None
        extra = [g_ for g_ in wg if not any(g_[0] is ug[0] and g_[1] == ug[1] for ug in use_guards)]
        cond = None
        prev = cur
        for c, pol, kind in extra:
            if kind == 'case' or not isinstance(pol, bool):
                return None
            c = _subst(c, var_id, prev)           # the guard and the stored value read the previous definition
            term = c if pol else {'k': 'un', 'op': '!', 'e': c, 't': c.get('t')}
            cond = term if cond is None else {'k': 'bin', 'op': '&&', 'x': cond, 'y': term, 't': c.get('t')}
        rhs = _subst(w['y'], var_id, prev)
        cur = rhs if cond is None else {'k': 'cond', 'c': cond, 'x': rhs, 'y': prev, 't': w.get('t')}
    return cur


def _subst(e, var_id, repl):
    """copy of e with every read of variable var_id replaced by expression repl"""
    if not isinstance(e, dict):
        return e
    if e.get('k') == 'var' and e.get('id') == var_id:
        return repl
    out = None
    from ir import EXPR_CHILD_KEYS, EXPR_LIST_KEYS
    for key in EXPR_CHILD_KEYS:
        v = e.get(key)
        if isinstance(v, dict):
            nv = _subst(v, var_id, repl)
            if nv is not v:
                out = out or dict(e)
                out[key] = nv
    for key in EXPR_LIST_KEYS:
        v = e.get(key)
        if isinstance(v, list):
            nl = [_subst(x, var_id, repl) if isinstance(x, dict) else x for x in v]
            if any(a is not b for a, b in zip(nl, v)):
                out = out or dict(e)
                out[key] = nl
    return out or e


def walk_stmts_(s):
    from ir import walk_stmts
    return walk_stmts(s)
