"""R-EQRANGE - an element-wise equality looks at every element.

`operator==` of the sorted Map and of Array compares two sequences position by position.  The member is executed on its control-flow
graph with both lengths bound to N = 0..4 and every comparison of two elements answered "equal": integer locals are followed
concretely (initialisations, `i++`, `--i`, `i += 1`, conditions over them and over length()), a branch whose condition reads
`x[i]` of either side is an element comparison, and its index is recorded.  For equal contents the member must return true having
compared exactly the positions 0 .. N-1: a position never compared means two containers that differ only there are reported equal
(a countdown that stops before 0, a loop that starts at 1 or ends at length()-1), a position outside the range is a read past
the end.  A body with constructs outside this fragment (look-ups, enumerators: the hash containers) is left to the other rules."""
import cfg as cfgm
from ir import strip, const_val, pe, walk_expr, T
from core import fwhere


class Abort(Exception):
    pass


ELEMVARS = set()


def _is_elem(e):
    """does e read an element through a subscript (or through a reference local bound to one)?"""
    for w in walk_expr(e):
        if w.get('k') == 'var' and w.get('id') in ELEMVARS:
            return True
        if w.get('k') == 'call' and w.get('op') == '[]':
            return True
        if w.get('k') in ('index', 'idx', 'subscript'):
            return True
    return False


def run_once(f, N):
    cfg = cfgm.CFG(f)
    ELEMVARS.clear()
    env = {}
    vals = {}
    indices = []

    def ev(e):
        if e is None:
            raise Abort('empty expression')
        if id(e) in vals:
            return vals[id(e)]
        k = e.get('k')
        if k in ('bin', 'call') and e.get('op') in ('!=', '==') and _is_elem(e):
            return 0 if e['op'] == '!=' else 1              # two elements: answered "equal"
        if k == 'int':
            return e.get('v')
        if k == 'bool':
            return int(bool(e.get('v')))
        if k in ('paren', 'cast', 'temp'):
            return ev(e['e'])
        if k == 'var':
            if e.get('id') in env and env[e['id']] is not None:
                return env[e['id']]
            raise Abort('value of `%s` not followed' % e.get('n'))
        if k == 'call':
            nm = (e.get('pq') or e.get('fn') or '').split('::')[-1]
            if nm == 'length' and not e.get('a'):
                return N
            raise Abort('call `%s`' % pe(e)[:40])
        if k == 'mem':
            raise Abort('member `%s`' % pe(e)[:40])
        if k == 'un':
            if e['op'] == '!':
                return int(not ev(e['e']))
            if e['op'] == '-':
                return -ev(e['e'])
            if e['op'] == '+':
                return ev(e['e'])
            raise Abort('unary %s' % e['op'])
        if k == 'bin':
            op = e['op']
            if op == '&&':
                return int(bool(ev(e['x'])) and bool(ev(e['y'])))
            if op == '||':
                return int(bool(ev(e['x'])) or bool(ev(e['y'])))
            x, y = ev(e['x']), ev(e['y'])
            if op == '+':
                return x + y
            if op == '-':
                return x - y
            if op == '*':
                return x * y
            if op in ('<', '>', '<=', '>=', '==', '!='):
                return int({'<': x < y, '>': x > y, '<=': x <= y, '>=': x >= y, '==': x == y, '!=': x != y}[op])
            raise Abort('operator %s' % op)
        if k == 'cond':
            return ev(e['x']) if ev(e['c']) else ev(e['y'])
        raise Abort('expression kind %s' % k)

    def lvar(e):
        e = strip(e)
        while e.get('k') in ('paren',):
            e = strip(e['e'])
        return e if e.get('k') == 'var' else None

    nd = cfg.entry
    steps = 0
    while True:
        steps += 1
        if steps > 4000:
            raise Abort('no return within 4000 steps for length %d' % N)
        label = None
        if nd.kind == 'decl' and isinstance(nd.info, dict) and nd.info.get('id') is not None:
            ini = nd.info.get('init')
            if ini is not None and _is_elem(ini):
                ELEMVARS.add(nd.info['id'])          # `const KeyVal& x = a[i];`
            try:
                env[nd.info['id']] = ev(ini) if ini is not None else None
            except Abort:
                env[nd.info['id']] = None
        elif nd.kind == 'ev' and nd.e is not None:
            e = nd.e
            k = e.get('k')
            if k == 'un' and e.get('op') in ('pre++', 'pre--', 'post++', 'post--'):
                v = lvar(e['e'])
                if v is None or env.get(v['id']) is None:
                    raise Abort('increment of `%s`' % pe(e['e'])[:30])
                old = env[v['id']]
                new = old + (1 if '++' in e['op'] else -1)
                env[v['id']] = new
                vals[id(e)] = new if e['op'].startswith('pre') else old
            elif k == 'bin' and e.get('op') in cfgm.ASSIGN_OPS:
                v = lvar(e['x'])
                if v is not None:
                    try:
                        r = ev(e['y'])
                        if e['op'] == '=':
                            new = r
                        elif e['op'] == '+=':
                            new = env[v['id']] + r
                        elif e['op'] == '-=':
                            new = env[v['id']] - r
                        else:
                            raise Abort('assignment %s' % e['op'])
                    except (Abort, TypeError, KeyError):
                        new = None
                    env[v['id']] = new
                    vals[id(e)] = new
            elif (k == 'call' and e.get('op') == '[]' and e.get('a')) or k in ('index', 'idx', 'subscript'):
                ix = e['a'][0] if k == 'call' else (e.get('i') or e.get('idx'))
                indices.append(ev(ix))
        elif nd.kind == 'br':
            c = nd.e
            if _is_elem(c):
                s = strip(c)
                while s.get('k') in ('paren', 'cast'):
                    s = strip(s['e'])
                op = s.get('op')
                if op == '!=':
                    label = False
                elif op == '==':
                    label = True
                else:
                    raise Abort('element test `%s`' % pe(c)[:40])
            else:
                label = bool(ev(c))
        elif nd.kind == 'ret':
            return (ev(nd.e) if nd.e is not None else None), indices
        elif nd.kind == 'exit':
            return None, indices
        elif nd.kind == 'sw':
            raise Abort('switch')
        nxt = [s for s, lab in nd.succ if label is None or lab is label]
        if len(nxt) != 1:
            raise Abort('control at line %s' % nd.line)
        nd = nxt[0]


def check(ctx, prog, rule, names):
    """-> number of equality members found (interpreted or not; the ones outside the fragment are listed in the evidence)"""
    n = 0
    found = 0
    seen = set()
    for f in prog.functions:
        if f.get('pq') not in names or not f.get('body') or f.get('implicit') or len(f['params']) != 1:
            continue
        pt = T(f, f['params'][0]['t'])
        if not pt.get('ref') or T(f, pt.get('to')).get('rec') != f.get('cls'):
            continue
        key = (f.get('file'), f.get('line'))
        if key in seen:
            continue
        found += 1
        bad = und = None
        runs = 0
        for N in range(0, 5):
            try:
                ret, idx = run_once(f, N)
            except (Abort, TypeError, KeyError, RecursionError) as a:
                und = str(a)
                break
            runs += 1
            if not ret:
                bad = 'for two containers of %d equal elements it returns false' % N
                break
            out = sorted(set(i for i in idx if not 0 <= i < N))
            if out:
                bad = 'with %d elements it reads position %s, outside the contents' % (N, out[0])
                break
            missing = sorted(set(range(N)) - set(idx))
            if missing:
                bad = 'with %d elements it returns true without having compared position %s (compared: %s): two containers that differ only there are reported equal' % (N, missing[0], sorted(set(idx)) or 'none')
                break
        if und and not bad:
            ctx.info.setdefault('eqrange_not_interpreted', []).append('%s%s: %s' % (f['q'], f.get('sig') or '', und))
            seen.add(key)
            continue
        seen.add(key)
        n += 1
        ctx.analysed(f)
        ctx.evaluations += runs
        role = 'operator==%s:compares every position of equal-length contents' % (f.get('sig') or '')
        ctx.check(bad is None, rule, f['pq'], role, fwhere(f), 'executed for lengths 0..4 with equal elements: returns true after comparing exactly the positions 0..N-1',
                  '%s%s: %s' % (f['pq'], f.get('sig') or '', bad))
    ctx.info['eqrange_interpreted'] = ctx.info.get('eqrange_interpreted', 0) + n
    return found
