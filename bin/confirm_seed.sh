#!/bin/bash
# usage: bin/confirm_seed.sh <seed dir with patch.diff demo.cpp meta.json> [extra demo flags]
# Independently confirms a seeded change in a scratch worktree (outside /repo and /verif, removed afterwards):
#   patched tree: builds, 28/28 tests pass, demo FAILS;  clean tree: demo PASSES.
# Prints one summary line; exit 0 when all four hold.
set -u
SEED=$(readlink -f "$1")
WT=$(mktemp -d /tmp/asl_seed.XXXXXX); rmdir "$WT"
git -C /repo worktree add -q --detach "$WT" HEAD || exit 3
trap 'git -C /repo worktree remove --force "$WT" >/dev/null 2>&1; rm -rf "$WT"' EXIT
SAN="-fsanitize=address,undefined"
grep -qi "tsan\|fsanitize=thread" "$SEED/meta.json" 2>/dev/null && SAN="-fsanitize=thread"
grep -q '"sanitizer": *"none"' "$SEED/meta.json" 2>/dev/null && SAN=""
buildlib() { # $1 = out dir
  mkdir -p "$1"; (cd "$1" && ls "$WT"/src/*.cpp | grep -v TlsSocket | xargs -P16 -I{} clang++ -std=c++11 -DASL_STATIC -I"$WT/include" -O1 -g $SAN -w -c {} && ar rcs libasl.a *.o) ; }
builddemo() { clang++ -std=c++11 -DASL_STATIC -I"$WT/include" -O1 -g $SAN -w "$SEED/demo.cpp" "$1/libasl.a" -lpthread -ldl -lrt -o "$1/demo" ; }
# clean tree first
buildlib "$WT/_clean" && builddemo "$WT/_clean" || { echo "SEED $SEED: clean build failed"; exit 2; }
( cd "$WT/_clean" && timeout 300 ./demo >demo.out 2>&1 ); CLEAN_RC=$?
git -C "$WT" apply "$SEED/patch.diff" || { echo "SEED $SEED: patch does not apply"; exit 2; }
cmake -G Ninja -S "$WT" -B "$WT/_build" -DASL_TESTS=ON -DCMAKE_BUILD_TYPE=Release >/dev/null 2>&1 && cmake --build "$WT/_build" -j16 >"$WT/build.log" 2>&1 || { echo "SEED $SEED: patched tree does not build"; tail -5 "$WT/build.log"; exit 2; }
TESTS=$(ctest --test-dir "$WT/_build" -j8 --timeout 900 2>&1 | grep "tests passed" )
buildlib "$WT/_pat" && builddemo "$WT/_pat" || { echo "SEED $SEED: patched demo build failed"; exit 2; }
( cd "$WT/_pat" && timeout 300 ./demo >demo.out 2>&1 ); PAT_RC=$?
# flaky (schedule dependent) demos: give the patched tree up to 5 tries to fail
n=0; while [ $PAT_RC -eq 0 ] && [ $n -lt 5 ]; do ( cd "$WT/_pat" && timeout 300 ./demo >demo.out 2>&1 ); PAT_RC=$?; n=$((n+1)); done
echo "SEED $(basename $(dirname $SEED))/$(basename $SEED): tests[$TESTS] demo_clean_rc=$CLEAN_RC demo_patched_rc=$PAT_RC"
tail -3 "$WT/_pat/demo.out" | cut -c1-200
[ "$CLEAN_RC" -eq 0 ] && [ "$PAT_RC" -ne 0 ] && echo "$TESTS" | grep -q "100% tests passed" && exit 0
exit 1
