"""Structural queries over the mini-IR shared by the rule modules."""
from ir import (walk_expr, walk_stmts, stmt_own_exprs, stmt_exprs, fn_exprs, strip, strip_lv, const_val, T, pe, AnalysisBroken)


def always_exits(s):
    """True when control cannot fall out of the end of statement s (return/break/continue/goto/throw on all paths)."""
    if s is None:
        return False
    k = s.get('k')
    if k in ('return', 'break', 'continue', 'goto'):
        return True
    if k == 'expr':
        e = s.get('e') or {}
        if e.get('k') == 'throw':
            return True
        if e.get('k') == 'call' and (e.get('fn') or '') in ('asl::asl_die', 'abort', 'exit'):
            return True
        return False
    if k == 'block':
        for x in s['s']:
            if always_exits(x):
                return True
        return False
    if k == 'if':
        return bool(s.get('else')) and always_exits(s['then']) and always_exits(s['else'])
    if k == 'label':
        return always_exits(s.get('sub'))
    return False


class Guarded:
    """For every expression node of a function: the conditions that structurally guard it.

    guards[id(expr)] = tuple of (condition expr, polarity, kind) where kind is 'if', 'loop', 'cond',
    'and', 'or', 'after' (an earlier `if (c) <always exits>` in the same or an enclosing block:
    the rest runs only when c was false), 'case' (switch case label: (switch expr, value))."""

    def __init__(self, f):
        self.f = f
        self.guards = {}
        self.stmt_guards = {}
        self.order = []
        self.encl = {}              # id(expr) -> ids of the always-exiting branch statements that enclose it
        self._exiting = ()
        self.switch_labels = {}     # id(switch condition) -> every explicit case label (v, v2) of that switch
        for i in f.get('inits', []):
            self._expr(i.get('e'), ())
        self._stmt(f.get('body'), ())

    def of(self, e):
        return self.guards.get(id(e), ())

    def _expr(self, e, g):
        if not isinstance(e, dict):
            return
        self.guards[id(e)] = g
        self.order.append(e)
        self.encl[id(e)] = self._exiting
        k = e.get('k')
        if k == 'bin' and e.get('op') in ('&&', '||'):
            self._expr(e['x'], g)
            self._expr(e['y'], g + ((e['x'], e['op'] == '&&', 'and' if e['op'] == '&&' else 'or'),))
            return
        if k == 'cond':
            self._expr(e['c'], g)
            self._expr(e['x'], g + ((e['c'], True, 'cond'),))
            self._expr(e['y'], g + ((e['c'], False, 'cond'),))
            return
        if k == 'lambda':
            for c in e.get('caps', []):
                self._expr(c, g)
            return
        if k == 'stmtexpr':
            self._stmt(e.get('body'), g)
            return
        from ir import expr_children
        for c in expr_children(e):
            self._expr(c, g)

    def _stmt(self, s, g):
        if not isinstance(s, dict):
            return g
        self.stmt_guards[id(s)] = g
        k = s.get('k')
        if k == 'block':
            cur = g
            for x in s['s']:
                cur = self._stmt(x, cur)
            # guards established by early exits persist after the block only if the block is the function
            # body or they were established at this level; propagate to the caller for flat continuation
            return cur if s.get('flat') else g + tuple(x for x in cur[len(g):] if x[2] == 'after')
        if k == 'expr' or k == 'return':
            self._expr(s.get('e'), g)
            return g
        if k == 'decl':
            for v in s['vars']:
                self._expr(v.get('init'), g)
            return g
        if k == 'if':
            cur = g
            if s.get('init'):
                cur = self._stmt(s['init'], cur)
            if s.get('cv'):
                self._expr(s['cv'].get('init'), cur)
            self._expr(s['c'], cur)
            saved = self._exiting
            if always_exits(s['then']):
                self._exiting = saved + (id(s['then']),)
            self._stmt(s['then'], cur + ((s['c'], True, 'if'),))
            self._exiting = saved
            if s.get('else'):
                if always_exits(s['else']):
                    self._exiting = saved + (id(s['else']),)
                self._stmt(s['else'], cur + ((s['c'], False, 'if'),))
                self._exiting = saved
            if always_exits(s['then']) and not s.get('else'):
                return g + ((s['c'], False, 'after'),)
            if s.get('else') and always_exits(s['else']) and not always_exits(s['then']):
                return g + ((s['c'], True, 'after'),)
            return g
        if k in ('while', 'for'):
            cur = g
            if s.get('init'):
                cur = self._stmt(s['init'], cur)
            if s.get('cv'):
                self._expr(s['cv'].get('init'), cur)
            if s.get('c') is not None:
                self._expr(s['c'], cur)
                inner = cur + ((s['c'], True, 'loop'),)
            else:
                inner = cur
            self._stmt(s['body'], inner)
            if s.get('inc') is not None:
                self._expr(s['inc'], inner)
            return g
        if k == 'do':
            self._stmt(s['body'], g)
            self._expr(s['c'], g)
            return g
        if k == 'switch':
            cur = g
            if s.get('init'):
                cur = self._stmt(s['init'], cur)
            self._expr(s['c'], cur)
            self._switch_body(s, cur)
            return g
        if k in ('case', 'default', 'label'):
            return self._stmt(s.get('sub'), g)
        if k == 'try':
            self._stmt(s['body'], g)
            for h in s.get('handlers', []):
                self._stmt(h, g)
            return g
        for c in s.get('ch', []) or []:
            self._stmt(c, g)
        return g

    def _switch_body(self, sw, g):
        body = sw.get('body')
        if not body or body.get('k') != 'block':
            self._stmt(body, g)
            return
        labels = None
        fall = False
        every = self.switch_labels.setdefault(id(sw['c']), [])
        def own_cases(st):
            # case labels of this switch only (labels may sit inside nested blocks, not inside nested switches)
            if not isinstance(st, dict) or st.get('k') == 'switch':
                return
            if st.get('k') == 'case':
                every.append((st.get('v'), st.get('v2')))
            for key in ('sub', 'then', 'else', 'body'):
                own_cases(st.get(key))
            for c in st.get('s', []) or []:
                own_cases(c)
        own_cases(body)
        for x in body['s']:
            # collect the labels opening this statement
            cur = x
            new_labels = []
            while cur.get('k') in ('case', 'default'):
                new_labels.append(('default',) if cur['k'] == 'default' else (cur.get('v'), cur.get('v2')))
                cur = cur['sub']
            if new_labels:
                if labels is not None and fall:
                    labels = labels + new_labels
                else:
                    labels = new_labels
            gg = g + ((sw['c'], tuple(labels) if labels else (), 'case'),)
            self._stmt(cur, gg)
            self.stmt_guards[id(x)] = gg
            fall = not always_exits(cur)


def calls_in(f, pred=None):
    for e in fn_exprs(f):
        if e.get('k') in ('call', 'construct') and (pred is None or pred(e)):
            yield e


def find_calls(f, names=None, pqs=None):
    for e in fn_exprs(f):
        if e.get('k') not in ('call', 'construct'):
            continue
        if names and (e.get('fn') or '').split('<')[0].split('::')[-1] in names:
            yield e
        elif pqs and e.get('pq') in pqs:
            yield e


def is_member_of_this(e, field=None):
    """e designates this->field (implicitly or explicitly)."""
    e = strip_lv(e)
    if not isinstance(e, dict) or e.get('k') != 'mem':
        return False
    b = strip_lv(e.get('b')) if e.get('b') else None
    if b is None or b.get('k') != 'this':
        return False
    return field is None or e.get('f') == field


def mentions_field(e, field):
    for x in walk_expr(e):
        if x.get('k') == 'mem' and x.get('f') == field:
            return True
    return False


def mentions_var(e, var_id):
    for x in walk_expr(e):
        if x.get('k') == 'var' and x.get('id') == var_id:
            return True
    return False


def enum_value(prog, enum_q, name):
    en = prog.enums.get(enum_q)
    if not en:
        raise AnalysisBroken('enum %s not found' % enum_q)
    for c in en['consts']:
        if c['n'] == name:
            return c['v']
    raise AnalysisBroken('enumerator %s::%s not found' % (enum_q, name))


def pointee_size(f, e):
    """Size of the object type a pointer expression designated before any conversion to void*/char*."""
    x = e
    while isinstance(x, dict) and x.get('k') in ('cast', 'temp'):
        if x.get('k') == 'cast' and x.get('ck') not in ('BitCast', 'NoOp', 'LValueToRValue', 'ArrayToPointerDecay', 'CPointerToObjCPointerCast'):
            break
        x = x['e']
    t = T(f, x.get('t'))
    if t.get('ptr') or t.get('arr'):
        to = T(f, t.get('to'))
        return to.get('sz'), to.get('s'), x
    return None, None, x


# ------------------------------------------------------------------ single-assignment locals

def _sig_params(sig):
    """parameter type texts of a signature string '(T1, T2)const' (top-level commas only)"""
    if not sig.startswith('('):
        return []
    depth = 0
    cur = ''
    out = []
    for ch in sig[1:]:
        if ch in '(<[':
            depth += 1
        elif ch in ')>]':
            if depth == 0:
                break
            depth -= 1
        if ch == ',' and depth == 0:
            out.append(cur.strip())
            cur = ''
        else:
            cur += ch
    if cur.strip():
        out.append(cur.strip())
    return out


def single_defs(f):
    """{var id: initialiser} for locals that are initialised at their declaration and never written again
    (no assignment, compound assignment, ++/--, and their address is not taken): such a local is just a name for its
    initialiser, so guards and index expressions may be read through it."""
    cached = f.get('_single_defs')
    if cached is not None:
        return cached
    defs = {}
    from ir import walk_stmts
    for s_ in walk_stmts(f.get('body')):
        if s_.get('k') == 'decl':
            for v in s_['vars']:
                tv = T(f, v['t'])
                # scalars only: a class-type local is an object with identity, not a name for its initialiser
                if v.get('init') is not None and not v.get('static') and (tv.get('int') or tv.get('ptr') or tv.get('flt')):
                    defs[v['id']] = v['init']
    for e in fn_exprs(f):
        k = e.get('k')
        tgt = None
        if k == 'bin' and e.get('op', '').endswith('=') and e['op'] not in ('==', '!=', '<=', '>='):
            tgt = strip_lv(e['x'])
        elif k == 'un' and e.get('op') in ('post++', 'post--', 'pre++', 'pre--', '&'):
            tgt = strip_lv(e['e'])
        if tgt is not None and tgt.get('k') == 'var':
            defs.pop(tgt['id'], None)
        # a non-const scalar passed to a call as an lvalue (bound to a reference parameter) may be written by the callee
        if k in ('call', 'construct'):
            ptypes = _sig_params(e.get('sig') or '')
            for ai, a in enumerate(e.get('a', []) or []):
                pt = ptypes[ai] if ai < len(ptypes) else None
                if pt is not None and (not pt.endswith('&') or pt.startswith('const ')):
                    continue        # by value or by reference to const: the callee cannot write it
                x = a
                while isinstance(x, dict) and x.get('k') == 'cast' and x.get('ck') == 'NoOp':
                    x = x['e']
                if isinstance(x, dict) and x.get('k') == 'var' and x.get('id') in defs and not T(f, x.get('dt') or x.get('t')).get('const'):
                    defs.pop(x['id'], None)
    f['_single_defs'] = defs
    return defs


def expand(f, e, depth=0, bools_only=False, stop=()):
    """e with every single-assignment local replaced by its initialiser (recursively, bounded).
    bools_only: only boolean locals (named guards such as `const bool hasQuery = ...`) are looked through."""
    if not isinstance(e, dict) or depth > 6:
        return e
    defs = single_defs(f)

    def wanted(v):
        return v.get('k') == 'var' and v.get('id') in defs and v.get('id') not in stop and v.get('vk') == 'local' and (not bools_only or T(f, v.get('dt') or v.get('t')).get('bool'))
    if wanted(e):
        return expand(f, defs[e['id']], depth + 1, bools_only, stop)
    if e.get('k') == 'cast' and e.get('ck') in ('LValueToRValue', 'NoOp') and wanted(strip_lv(e)):
        return expand(f, defs[strip_lv(e)['id']], depth + 1, bools_only, stop)
    out = dict(e)
    changed = False
    from ir import EXPR_CHILD_KEYS, EXPR_LIST_KEYS
    for key in EXPR_CHILD_KEYS:
        v = e.get(key)
        if isinstance(v, dict):
            nv = expand(f, v, depth, bools_only, stop)
            if nv is not v:
                out[key] = nv
                changed = True
    for key in EXPR_LIST_KEYS:
        v = e.get(key)
        if isinstance(v, list):
            nl = [expand(f, x, depth, bools_only, stop) if isinstance(x, dict) else x for x in v]
            if any(a is not b for a, b in zip(nl, v)):
                out[key] = nl
                changed = True
    return out if changed else e


# ------------------------------------------------------------------ counted loops

def _writes_to(f, vid):
    out = []
    for e in fn_exprs(f):
        k = e.get('k')
        tgt = None
        if k == 'bin' and e.get('op', '').endswith('=') and e['op'] not in ('==', '!=', '<=', '>='):
            tgt = strip_lv(e['x'])
        elif k == 'un' and e.get('op') in ('post++', 'post--', 'pre++', 'pre--', '&'):
            tgt = strip_lv(e['e'])
        if tgt is not None and tgt.get('k') == 'var' and tgt.get('id') == vid:
            out.append(e)
    return out


def _has_continue(s):
    """a `continue` that belongs to this loop body (not to a nested loop)"""
    if not isinstance(s, dict):
        return False
    k = s.get('k')
    if k == 'continue':
        return True
    if k in ('for', 'while', 'do'):
        return False
    for key in ('then', 'else', 'sub', 'body'):
        if _has_continue(s.get(key)):
            return True
    for c in s.get('s', []) or []:
        if _has_continue(c):
            return True
    return False


def _step_of(inc, vid=None):
    """(var id, step) of an increment expression `i++`, `i += s`, `i = i + s` (step: int +1/-1 or an expression)"""
    inc = strip(inc)
    if inc.get('k') == 'un' and inc.get('op') in ('post++', 'pre++', 'post--', 'pre--'):
        t = strip_lv(inc['e'])
        if t.get('k') == 'var' and (vid is None or t['id'] == vid):
            return t, (1 if '++' in inc['op'] else -1)
    if inc.get('k') == 'bin' and inc.get('op') in ('+=', '-='):
        t = strip_lv(inc['x'])
        if t.get('k') == 'var' and (vid is None or t['id'] == vid):
            return t, (inc['y'] if inc['op'] == '+=' else {'k': 'un', 'op': '-', 'e': inc['y'], 't': inc.get('t')})
    if inc.get('k') == 'bin' and inc.get('op') == '=':
        t = strip_lv(inc['x'])
        r = strip(inc['y'])
        if t.get('k') == 'var' and (vid is None or t['id'] == vid) and r.get('k') == 'bin' and r.get('op') == '+' and strip(r['x']).get('id') == t['id']:
            return t, r['y']
    return None, None


def _comma_parts(e):
    e = strip(e)
    if e.get('k') == 'bin' and e.get('op') == ',':
        return _comma_parts(e['x']) + _comma_parts(e['y'])
    return [e]


def counted_loop(f, lp, need_init=True):
    """Normal form of a counting loop, whichever way it is spelt:
         for (T i = a; i < b; i += s) body          while-form:  T i = a; ... while (i < b) { body; i += s; }
       -> {'var': id, 'name', 'init': expr or None, 'cond': the whole condition, 'op': '<' | '<=' | '!=' | '>' | '>=' or None,
           'bound': expr (when the condition is `i <op> bound`), 'step': expr or +1/-1 (int), 'body': [statements without the increment]}
       or None when the loop is not of that form.  The induction variable is the variable of the condition that the
       increment (for-increment, possibly one operand of a comma; or last statement of a while body without `continue`)
       steps; inside the loop it is written nowhere else.  With need_init it is also written nowhere else in the function
       than its initialisation."""
    if lp.get('k') not in ('for', 'while') or lp.get('c') is None:
        return None
    body = lp['body']['s'] if lp['body'].get('k') == 'block' else [lp['body']]
    incs = []
    rest = body
    if lp['k'] == 'for' and lp.get('inc') is not None:
        incs = _comma_parts(lp['inc'])
    elif body and body[-1].get('k') == 'expr' and not _has_continue(lp['body']):
        incs = _comma_parts(body[-1]['e'])
        rest = body[:-1]
    cond_vars = set(w['id'] for w in walk_expr(lp['c']) if w.get('k') == 'var')
    c = strip(lp['c'])
    flip = {'<': '>', '<=': '>=', '>': '<', '>=': '<=', '!=': '!='}
    in_loop = set(id(e) for e in stmt_exprs(lp['body']))
    if lp.get('inc') is not None:
        in_loop |= set(id(e) for e in walk_expr(lp['inc']))
    in_loop |= set(id(e) for e in walk_expr(lp['c']))
    for inc in incs:
        v, step = _step_of(inc)
        if v is None or v['id'] not in cond_vars:
            continue
        vid = v['id']
        writes = _writes_to(f, vid)
        others = [w for w in writes if w is not inc]
        if any(id(w) in in_loop for w in others):
            continue
        op = bound = None
        if c.get('k') == 'bin' and c.get('op') in flip:
            if strip(c['x']).get('k') == 'var' and strip(c['x'])['id'] == vid:
                op, bound = c['op'], c['y']
            elif strip(c['y']).get('k') == 'var' and strip(c['y'])['id'] == vid:
                op, bound = flip[c['op']], c['x']
        init = None
        if lp['k'] == 'for' and lp.get('init') is not None:
            ini = lp['init']
            if ini.get('k') == 'decl':
                for dv in ini['vars']:
                    if dv['id'] == vid:
                        init = dv.get('init')
            elif ini.get('k') == 'expr':
                for e0 in _comma_parts(ini['e']):
                    if e0.get('k') == 'bin' and e0.get('op') == '=' and strip_lv(e0['x']).get('id') == vid:
                        init = e0['y']
                        others = [w for w in others if w is not e0]
        if init is None:
            # declared (or assigned once) before the loop
            for s_ in walk_stmts(f.get('body')):
                if s_.get('k') == 'decl':
                    for dv in s_['vars']:
                        if dv['id'] == vid and dv.get('init') is not None and s_.get('l', 0) <= lp.get('l', 0):
                            init = dv['init']
            if init is None and len(others) == 1:
                e0 = others[0]
                if e0.get('k') == 'bin' and e0.get('op') == '=' and e0.get('l', 0) <= lp.get('l', 0):
                    init = e0['y']
                    others = []
        if init is None and v.get('vk') == 'param' and not others:
            init = v            # a parameter counted down / up from its incoming value
        if need_init and (init is None or others):
            continue
        if others:
            init = None
        return {'var': vid, 'name': v.get('n'), 'init': init, 'cond': lp['c'], 'op': op, 'bound': bound, 'step': step, 'body': rest, 'loop': lp}
    return None


def trip_count(init, op, bound, step):
    """number of iterations of `for (i = init; i <op> bound; i += step)` for concrete integers (closed form, None = unbounded)"""
    if step == 0:
        return None
    if op in ('<', '<='):
        if step < 0:
            return None if (init < bound or (op == '<=' and init == bound)) else 0
        lim = bound + (1 if op == '<=' else 0)
        return max(0, -((init - lim) // step))
    if op in ('>', '>='):
        if step > 0:
            return None if (init > bound or (op == '>=' and init == bound)) else 0
        lim = bound - (1 if op == '>=' else 0)
        return max(0, -((lim - init) // (-step)))
    if op == '!=':
        d = bound - init
        if d == 0:
            return 0
        if d % step == 0 and d // step > 0:
            return d // step
        return None
    return None


def const_choices(f, e, depth=0):
    """the set of integer values expression e can take when it is a constant, a conditional between such expressions or a
    local read through its single definition; None otherwise"""
    if e is None or depth > 6:
        return None
    e = strip(e)
    while e.get('k') in ('cast', 'paren', 'temp'):
        e = strip(e['e'])
    cv = const_val(e)
    if cv is not None:
        return {cv}
    if e.get('k') == 'cond':
        a, b = const_choices(f, e['x'], depth + 1), const_choices(f, e['y'], depth + 1)
        return None if a is None or b is None else a | b
    if e.get('k') == 'var' and e.get('vk') == 'local':
        d = single_defs(f).get(e.get('id'))
        return const_choices(f, d, depth + 1) if d is not None else None
    return None


def fn_exprs_inlined(prog, f, depth=2, _seen=None):
    """the expressions of f in source order, with the expressions of helpers (functions with a body in the same source file or
    the same class) inserted at their call sites (after the call's own argument expressions)"""
    _seen = _seen or set([f.get('q')])
    pending = []
    for e in fn_exprs(f):
        yield e
        helper = None
        if depth > 0 and e.get('k') == 'call' and e.get('fn'):
            for h in prog.fn(e['fn'], e.get('sig')):
                if h.get('body') and h.get('q') not in _seen and (h.get('file') == f.get('file') or (h.get('clsp') and h.get('clsp') == f.get('clsp'))):
                    helper = h
                    break
        if helper is not None:
            pending.append([set(id(x) for x in walk_expr(e)) - set([id(e)]), helper])
        done = []
        for pnd in pending:
            pnd[0].discard(id(e))
            if not pnd[0]:
                done.append(pnd)
        for pnd in done:
            pending.remove(pnd)
            for x in fn_exprs_inlined(prog, pnd[1], depth - 1, _seen | set([pnd[1].get('q')])):
                yield x
    for pnd in pending:
        for x in fn_exprs_inlined(prog, pnd[1], depth - 1, _seen | set([pnd[1].get('q')])):
            yield x
