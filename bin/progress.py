"""R-PROGRESS - a transfer loop ends when its source is exhausted.

A loop of the form `n = src.read(buf, k); ... sink.write(buf, n); count += n;` makes progress only through `n`.  File::read
returns 0 at the end of the file and Socket::read returns 0 once the peer has closed, and both keep returning 0: an iteration
that took 0 and comes back to the same read with nothing changed repeats for ever (the serving thread spins, the connection is
never closed, stop(true) never returns).  The rule takes every assignment `n = <call of a member read(...)>` to a local of the
functions it is given, assumes the value 0 and walks the control-flow graph from there:

 * branches on `n` (and on copies of it) against constants are evaluated (`n > 0`, `n <= 0`, `!n`, `n < 0`, ...);
 * a branch over locals that the walk has not seen modified - `bytesSent < size` after `bytesSent += n` with n = 0 - is followed both
   ways; on the next iteration it goes the same way (stable);
 * a test of a call that was handed the zero count (`write(buf, n) < 0`) is followed both ways: writing nothing need not fail;
 * any other branch (another call, a member, a variable the iteration changed) may be the exit the author relies on: the walk gives
   no verdict beyond it.

Reaching the same read again on a walk made only of evaluated, stable and zero-write branches is the violation, with the line trace.
Loops that leave on 0 by any spelling (`while (n > 0 && ...)`, `if (n <= 0) break/return`, do-while) have no such walk."""
import cfg as cfgm
from ir import strip, strip_lv, const_val, pe, walk_expr
from core import fwhere


def _read_call(e):
    e = strip(e) if e is not None else None
    while e is not None and e.get('k') in ('paren', 'cast', 'temp'):
        e = strip(e['e'])
    if e is None or e.get('k') != 'call':
        return False
    name = (e.get('pq') or e.get('fn') or '')
    return name.split('::')[-1] == 'read' and e.get('obj') is not None


def _var(e):
    e = strip(e) if e is not None else None
    while e is not None and e.get('k') in ('paren', 'cast'):
        e = strip(e['e'])
    return e if e is not None and e.get('k') == 'var' else None


CMP = {'<': lambda a, b: a < b, '>': lambda a, b: a > b, '<=': lambda a, b: a <= b, '>=': lambda a, b: a >= b, '==': lambda a, b: a == b, '!=': lambda a, b: a != b}


def _eval(c, Z):
    """truth of condition c when the variables of Z are 0, or None"""
    v = _var(c)
    if v is not None:
        return False if v['id'] in Z else None
    c = strip(c)
    while c.get('k') in ('paren', 'cast'):
        c = strip(c['e'])
    if c.get('k') == 'bin' and c.get('op') in CMP:
        for a, b, flip in ((c['x'], c['y'], False), (c['y'], c['x'], True)):
            va, kb = _var(a), const_val(b)
            if va is not None and va['id'] in Z and isinstance(kb, int):
                return CMP[c['op']](kb, 0) if flip else CMP[c['op']](0, kb)
    return None


def _locals_only(c):
    """ids of the variables of a condition made of locals / parameters, constants, comparisons and arithmetic only; None otherwise"""
    ids = set()
    for w in walk_expr(c):
        k = w.get('k')
        if k == 'var':
            if w.get('global') or w.get('static'):
                return None
            ids.add(w['id'])
        elif k in ('int', 'float', 'paren', 'cast'):
            continue
        elif k == 'bin' and w.get('op') in ('<', '>', '<=', '>=', '==', '!=', '+', '-', '*', '&&', '||'):
            continue
        elif k == 'un' and w.get('op') in ('!', '-', '+'):
            continue
        elif k == 'sizeof':
            continue
        else:
            return None
    return ids


def check(ctx, prog, rule, files):
    """-> number of read assignments examined"""
    n_sites = 0
    for f in prog.functions:
        if not f.get('body') or f.get('implicit') or not any((f.get('file') or '').endswith(x) for x in files):
            continue
        if not any(_read_call(w) for w in fn_exprs_all(f)):
            continue
        cfg = cfgm.CFG(f)
        sites = []
        for nd in cfg.nodes:
            if nd.kind == 'ev' and nd.e is not None and nd.e.get('k') == 'bin' and nd.e.get('op') == '=' and _var(nd.e['x']) is not None and _read_call(nd.e['y']):
                sites.append((nd, _var(nd.e['x'])['id'], pe(nd.e)))
            elif nd.kind == 'decl' and isinstance(nd.info, dict) and nd.info.get('init') is not None and _read_call(nd.info['init']) and nd.info.get('id') is not None:
                sites.append((nd, nd.info['id'], '%s = %s' % (nd.info.get('n'), pe(nd.info['init']))))
        for site, nid, text in sites:
            n_sites += 1
            ctx.analysed(f)
            role = '%s:`%s` taking 0 leaves the loop' % (f['n'], text[:60])
            found = _walk(cfg, site, nid)
            ctx.evaluations += found[1]
            if found[0] is None:
                ctx.ok(rule, f['pq'], role, fwhere(f, site.line), 'no walk from the read with the value 0 returns to it through evaluated, stable and zero-write branches only (%d states)' % found[1])
            else:
                ctx.violation(rule, f['pq'], role, fwhere(f, site.line),
                              'when `%s` yields 0 (end of the file, peer closed) control returns to the same read with nothing changed (lines %s): the loop repeats for ever - the thread spins, the connection is never closed and stop(true) cannot complete' % (text, found[0]))
    return n_sites


def fn_exprs_all(f):
    from ir import fn_exprs
    return fn_exprs(f)


def _walk(cfg, site, nid):
    """-> (line trace of a no-progress cycle or None, states visited)"""
    # state: (zero vars, vars of stable branches passed, vars modified)
    init = (frozenset([nid]), frozenset(), frozenset())
    seen = set()
    work = [(s, init, (site.line,)) for s, lab in site.succ]
    count = 0
    while work:
        nd, st, trace = work.pop()
        key = (nd.id, st)
        if key in seen:
            continue
        seen.add(key)
        count += 1
        if count > 20000:
            return None, count
        Z, S, M = st
        if nd is site:
            if not (S & M):
                return ' -> '.join(':%s' % l for l in trace + (nd.line,)), count
            continue
        if nd.kind in ('exit', 'ret'):
            continue
        if nd.line and nd.line != trace[-1]:
            trace = trace + (nd.line,)
        succ = list(nd.succ)
        if nd.kind == 'decl' and isinstance(nd.info, dict) and nd.info.get('id') is not None:
            vid = nd.info['id']
            iv = _var(nd.info.get('init'))
            if iv is not None and iv['id'] in Z or (nd.info.get('init') is not None and const_val(nd.info['init']) == 0):
                Z = Z | {vid}
            else:
                Z = Z - {vid}
            M = M - {vid}            # a fresh object of this iteration
        elif nd.kind == 'ev' and nd.e is not None:
            e = nd.e
            if e.get('k') == 'bin' and e.get('op') in cfgm.ASSIGN_OPS:
                lv = _var(e['x'])
                if lv is not None:
                    rv = _var(e['y'])
                    zero_rhs = (rv is not None and rv['id'] in Z) or const_val(e['y']) == 0
                    if e['op'] == '=':
                        if lv['id'] == nid and not zero_rhs:
                            continue                      # a fresh count: this walk no longer speaks about the value 0
                        if zero_rhs:
                            if lv['id'] not in Z:
                                M = M | {lv['id']}
                            Z = Z | {lv['id']}
                        else:
                            Z = Z - {lv['id']}
                            M = M | {lv['id']}
                    elif e['op'] in ('+=', '-=') and zero_rhs:
                        pass                              # adds nothing
                    else:
                        if lv['id'] == nid:
                            continue
                        Z = Z - {lv['id']}
                        M = M | {lv['id']}
            elif e.get('k') == 'un' and e.get('op') in ('pre++', 'post++', 'pre--', 'post--'):
                lv = _var(e['e'])
                if lv is not None:
                    if lv['id'] == nid:
                        continue
                    Z = Z - {lv['id']}
                    M = M | {lv['id']}
            elif e.get('k') == 'call':
                lost = False
                for a in e.get('a', []) or []:
                    x = a
                    while x is not None and x.get('k') == 'paren':
                        x = x['e']
                    if x is not None and x.get('k') == 'un' and x.get('op') == '&':
                        x = x['e']
                    if x is not None and x.get('k') == 'var':      # handed over as an lvalue (reference or address)
                        if x['id'] == nid:
                            lost = True
                        Z = Z - {x['id']}
                        M = M | {x['id']}
                if lost:
                    continue
        elif nd.kind == 'br':
            t = _eval(nd.e, Z)
            if t is not None:
                succ = [(s, lab) for s, lab in succ if lab is t]
            else:
                ids = _locals_only(nd.e)
                if ids is not None:
                    S = S | frozenset(ids)
                elif any(w.get('k') == 'call' and any(_var(a) is not None and _var(a)['id'] in Z for a in (w.get('a') or [])) for w in walk_expr(nd.e)):
                    pass
                else:
                    continue                              # an exit this rule cannot evaluate: no verdict beyond it
        elif nd.kind == 'sw':
            continue
        st2 = (frozenset(Z), frozenset(S), frozenset(M))
        for s, lab in succ:
            work.append((s, st2, trace))
    return None, count
