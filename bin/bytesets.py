"""Exact evaluation of side-effect-free integer expressions with the variables bound to concrete values, used to compute
byte sets: the set of the 256 byte values for which a guard over "the current character" holds (powerset-of-bytes domain).

Only expression trees are evaluated (conditions, table look-ups, calls of pure one-line predicates whose own bodies are
expression trees); loops and statements are never executed."""
from ir import strip, strip_lv, const_val, T, pe, walk_stmts


class Undecidable(Exception):
    pass


C_ALNUM = set(range(48, 58)) | set(range(65, 91)) | set(range(97, 123))
C_ALPHA = set(range(65, 91)) | set(range(97, 123))
C_DIGIT = set(range(48, 58))
C_SPACE = {32, 9, 10, 11, 12, 13}
C_XDIGIT = C_DIGIT | set(range(65, 71)) | set(range(97, 103))

LIBC = {
    'isalnum': lambda v: int((v & 0xff) in C_ALNUM and 0 <= v < 256),
    'isalpha': lambda v: int((v & 0xff) in C_ALPHA and 0 <= v < 256),
    'isdigit': lambda v: int((v & 0xff) in C_DIGIT and 0 <= v < 256),
    'isspace': lambda v: int((v & 0xff) in C_SPACE and 0 <= v < 256),
    'isxdigit': lambda v: int((v & 0xff) in C_XDIGIT and 0 <= v < 256),
    'isfinite': lambda v: int(v == v and v not in (float('inf'), float('-inf'))),
    'std::isfinite': lambda v: int(v == v and v not in (float('inf'), float('-inf'))),
    '__builtin_isfinite': lambda v: int(v == v and v not in (float('inf'), float('-inf'))),
    'finite': lambda v: int(v == v and v not in (float('inf'), float('-inf'))),
    '_finite': lambda v: int(v == v and v not in (float('inf'), float('-inf'))),
    'isnan': lambda v: int(v != v), 'std::isnan': lambda v: int(v != v), '__builtin_isnan': lambda v: int(v != v),
    'isinf': lambda v: int(v in (float('inf'), float('-inf'))), 'std::isinf': lambda v: int(v in (float('inf'), float('-inf'))),
    '__builtin_isinf': lambda v: int(v in (float('inf'), float('-inf'))),
    'iscntrl': lambda v: int(0 <= v < 32 or v == 127),
    'isprint': lambda v: int(32 <= v < 127),
    'toupper': lambda v: v - 32 if 97 <= v <= 122 else v,
    'tolower': lambda v: v + 32 if 65 <= v <= 90 else v,
}


def wrap(v, bits, signed):
    v &= (1 << bits) - 1
    if signed and v >= (1 << (bits - 1)):
        v -= (1 << bits)
    return v


class StrVal:
    """a pointer to a string literal (only compared against the null pointer / other literals, never dereferenced blindly)"""
    def __init__(self, b):
        self.b = bytes(b)

    def __eq__(self, o):
        return isinstance(o, StrVal) and o.b == self.b

    def __ne__(self, o):
        return not self.__eq__(o)

    def __hash__(self):
        return hash(self.b)

    def __bool__(self):
        return True

    def __repr__(self):
        return 'StrVal(%r)' % self.b


class Evaluator:
    def __init__(self, prog, f, env=None, arrays=None, depth=0):
        self.prog = prog
        self.f = f
        self.env = dict(env or {})         # var id -> int
        self.arrays = dict(arrays or {})   # var id -> list of ints
        self.depth = depth

    def ev(self, e):
        if e is None:
            raise Undecidable('missing expression')
        k = e.get('k')
        if k == 'int':
            return e['v']
        if k == 'str':
            return StrVal(e['b'])
        if k == 'float':
            return float(e['v'])
        if k == 'cast':
            ck = e.get('ck')
            if ck == 'NullToPointer':
                return 0
            v = self.ev(e['e'])
            if isinstance(v, StrVal):
                if ck in ('LValueToRValue', 'NoOp', 'ArrayToPointerDecay', 'BitCast'):
                    return v
                if ck == 'PointerToBoolean':
                    return 1
                raise Undecidable('cast %s of a string literal' % ck)
            if ck in ('LValueToRValue', 'NoOp'):
                return v
            if ck == 'IntegralCast':
                t = T(self.f, e.get('t'))
                if t.get('bits'):
                    return wrap(v, t['bits'], t.get('sg', True))
                return v
            if ck in ('IntegralToBoolean', 'PointerToBoolean', 'FloatingToBoolean'):
                return int(v != 0)
            if ck in ('IntegralToFloating', 'FloatingCast'):
                return float(v)
            if ck == 'FloatingToIntegral':
                t = T(self.f, e.get('t'))
                iv = int(v)
                r_ = wrap(iv, t['bits'], t.get('sg', True)) if t.get('bits') else iv
                if r_ != iv:
                    raise Undecidable('floating value %r outside the range of %s' % (v, t.get('s')))
                return iv
            if ck == 'ArrayToPointerDecay':
                return v
            raise Undecidable('cast %s' % ck)
        if k == 'var':
            if e['id'] in self.env:
                return self.env[e['id']]
            if 'cv' in e:
                return e['cv']
            if e.get('vk') == 'local' and self.depth < 8:
                import q as _q
                d = _q.single_defs(self.f).get(e['id'])
                if d is not None:
                    self.depth += 1
                    try:
                        return self.ev(d)
                    finally:
                        self.depth -= 1
            if e.get('vk') in ('global', 'slocal') and e.get('q') and self.depth < 8:
                # a const-qualified namespace-scope / static constant with a constant initialiser
                g = self.prog.globals.get(e['q'])
                if g is not None and g.get('const') and isinstance(g.get('init'), dict):
                    self.depth += 1
                    try:
                        return Evaluator(self.prog, dict(self.f, _types=g.get('_types', self.f.get('_types'))), {}, {}, self.depth).ev(g['init'])
                    finally:
                        self.depth -= 1
            raise Undecidable('free variable %s' % e.get('n'))
        if k == 'un':
            op = e['op']
            v = self.ev(e['e'])
            if op == '!':
                return int(not v)
            if op == '-':
                return -v
            if op == '~':
                return ~v
            if op == '+':
                return v
            raise Undecidable('unary %s' % op)
        if k == 'bin':
            op = e['op']
            if op == '&&':
                return int(bool(self.ev(e['x'])) and bool(self.ev(e['y'])))
            if op == '||':
                return int(bool(self.ev(e['x'])) or bool(self.ev(e['y'])))
            a, b = self.ev(e['x']), self.ev(e['y'])
            if isinstance(a, StrVal) or isinstance(b, StrVal):
                if op == '==':
                    return int(a == b)
                if op == '!=':
                    return int(a != b)
                raise Undecidable('arithmetic on a string literal')
            t = T(self.f, e.get('t'))
            if op == '+':
                r = a + b
            elif op == '-':
                r = a - b
            elif op == '*':
                r = a * b
            elif op == '/':
                if b == 0:
                    raise Undecidable('division by zero')
                r = int(a / b)
            elif op == '%':
                if b == 0:
                    raise Undecidable('division by zero')
                r = a - int(a / b) * b
            elif op == '&':
                r = a & b
            elif op == '|':
                r = a | b
            elif op == '^':
                r = a ^ b
            elif op == '<<':
                r = a << b
            elif op == '>>':
                r = a >> b
            elif op in ('==', '!=', '<', '>', '<=', '>='):
                # usual arithmetic conversions: if either operand is unsigned 32-bit, compare as unsigned
                tx, ty = T(self.f, strip_lv(e['x']).get('t')), T(self.f, strip_lv(e['y']).get('t'))
                wide = max(tx.get('bits') or 0, ty.get('bits') or 0)
                if wide == 64 and ((tx.get('bits') == 64 and tx.get('sg') is False) or (ty.get('bits') == 64 and ty.get('sg') is False)):
                    if isinstance(a, int) and isinstance(b, int):
                        a &= 0xffffffffffffffff
                        b &= 0xffffffffffffffff
                elif wide <= 32 and ((tx.get('bits') == 32 and tx.get('sg') is False) or (ty.get('bits') == 32 and ty.get('sg') is False)):
                    if isinstance(a, int) and isinstance(b, int):
                        a &= 0xffffffff
                        b &= 0xffffffff
                return int({'==': a == b, '!=': a != b, '<': a < b, '>': a > b, '<=': a <= b, '>=': a >= b}[op])
            elif op == ',':
                return b
            else:
                raise Undecidable('binary %s' % op)
            if t.get('bits'):
                r = wrap(r, t['bits'], t.get('sg', True))
            return r
        if k == 'cond':
            return self.ev(e['x']) if self.ev(e['c']) else self.ev(e['y'])
        if k == 'idx':
            b = strip(e['b'])
            i = self.ev(e['i'])
            arr = None
            if b.get('k') == 'var' and b.get('id') in self.arrays:
                arr = self.arrays[b['id']]
            elif b.get('k') == 'str':
                arr = b['b'] + [0]
            elif b.get('k') == 'var' and b.get('q') and b['q'] in self.prog.globals:
                g = self.prog.globals[b['q']]
                if 'vals' in g:
                    arr = g['vals']
                elif g.get('init', {}).get('k') == 'str':
                    arr = g['init']['b'] + [0]
            if arr is None:
                raise Undecidable('array %s' % pe(b))
            if not 0 <= i < len(arr):
                raise Undecidable('index %d outside table of %d' % (i, len(arr)))
            v = arr[i]
            t = T(self.f, e.get('t'))
            if t.get('bits') == 8 and t.get('sg') and v > 127:
                v -= 256
            return v
        if k == 'call':
            return self.call(e)
        if k == 'temp':
            return self.ev(e['e'])
        raise Undecidable('expression kind %s' % k)

    def sub_evaluator(self, g, env, arrays):
        """evaluator for the body of callee g; subclasses keep their bindings of members / texts"""
        return Evaluator(self.prog, g, env, arrays, self.depth + 1)

    def call(self, e):
        fn = e.get('fn') or ''
        if fn in LIBC and not e.get('clsp'):
            return LIBC[fn](self.ev(e['a'][0]))
        if self.depth > 4:
            raise Undecidable('call depth')
        try:
            return self.call_expr(e)
        except Undecidable as u:
            if e.get('obj') is not None or e.get('clsp'):
                raise
            r = self.call_interp(e)
            if r is None:
                raise u
            return r

    def call_interp(self, e):
        """a free helper whose body is more than a decision tree (loops, pointer parameters into string literals): its body is
        interpreted (scansim) on the evaluated arguments.  -> int, or None when the arguments / body are outside that fragment"""
        import scansim
        fn = e.get('fn') or ''
        cands = [g for g in self.prog.fn(fn, e.get('sig')) if g.get('body')]
        if not cands or len(cands[0]['params']) != len(e.get('a', [])):
            return None
        g = cands[0]
        bufs, vals = {}, {}
        import q as _q
        for k_, (p, a) in enumerate(zip(g['params'], e['a'])):
            try:
                v = self.ev(a)
            except Undecidable:
                try:
                    v = self.ev(_q.expand(self.f, a))
                except Undecidable:
                    return None
            pt = T(g, p['t'])
            if isinstance(v, StrVal):
                bufs[('L', k_)] = [wrap(b, 8, True) for b in v.b] + [0]
                vals[p['id']] = ('P', ('L', k_), 0)
            elif isinstance(v, int) and not isinstance(v, bool) or isinstance(v, bool):
                vals[p['id']] = scansim.wrap(int(v), pt) if pt.get('bits') or pt.get('bool') else int(v)
            else:
                return None
        r = scansim.Run(self.prog, g, bufs, depth=self.depth + 1)
        r.vars.update(vals)
        try:
            out = r.run()
        except (scansim.Unsupported, scansim.OOB, TypeError, RecursionError):
            return None
        if isinstance(out, tuple) and out[0] == 'P' and out[1][0] in ('S', 'L') and all(isinstance(x, int) for x in r.bufs[out[1]]):
            # pointer into a string literal: the literal from that position up to its terminator
            rest = r.bufs[out[1]][out[2]:]
            if 0 in rest:
                return StrVal([x & 255 for x in rest[:rest.index(0)]])
            return None
        if not isinstance(out, int):
            return None
        rt = T(g, g.get('ret'))
        if rt.get('bool'):
            return int(bool(out))
        if rt.get('bits'):
            return wrap(out, rt['bits'], rt.get('sg', True))
        return out

    def call_expr(self, e):
        fn = e.get('fn') or ''
        cands = [g for g in self.prog.fn(fn, e.get('sig')) if g.get('body')]
        if not cands:
            raise Undecidable('call of %s' % fn)
        g = cands[0]
        body = g['body']['s'] if g['body'].get('k') == 'block' else [g['body']]
        env, arrays = {}, {}
        for p, a in zip(g['params'], e.get('a', [])):
            pt = T(g, p['t'])
            if pt.get('ptr') or pt.get('ref') and not pt.get('int'):
                raise Undecidable('pointer parameter of %s' % fn)
            v = self.ev(a)
            if pt.get('bits'):
                v = wrap(v, pt['bits'], pt.get('sg', True))
            env[p['id']] = v
        sub = self.sub_evaluator(g, env, arrays)
        rt = T(g, g.get('ret'))

        def fin(r):
            if rt.get('bool'):
                return int(bool(r))
            if rt.get('bits'):
                return wrap(r, rt['bits'], rt.get('sg', True))
            return r

        def ret_of(st):
            # `return e;`  or  `if (c) return a; else return b;` (loop-free decision trees only)
            if st is None:
                return None
            if st.get('k') == 'return' and st.get('e') is not None:
                return fin(sub.ev(st['e']))
            if st.get('k') == 'block' and len(st['s']) == 1:
                return ret_of(st['s'][0])
            if st.get('k') == 'if' and not st.get('init') and not st.get('cv'):
                if sub.ev(st['c']):
                    return ret_of(st['then'])
                if st.get('else') is not None:
                    return ret_of(st['else'])
                return None
            raise Undecidable('%s is not a loop-free decision tree' % fn)
        for st in body:
            if st.get('k') == 'if':
                r = ret_of(st)
                if r is not None:
                    return r
                continue
            if st.get('k') == 'decl':
                for v in st['vars']:
                    ini = strip(v.get('init') or {})
                    if ini.get('k') == 'str':
                        sub.arrays[v['id']] = ini['b'] + [0]
                    elif v.get('init') is not None:
                        sub.env[v['id']] = sub.ev(v['init'])
            elif st.get('k') == 'return' and st.get('e') is not None:
                r = sub.ev(st['e'])
                rt = T(g, g.get('ret'))
                if rt.get('bool'):
                    r = int(bool(r))
                elif rt.get('bits'):
                    r = wrap(r, rt['bits'], rt.get('sg', True))
                return r
            else:
                raise Undecidable('%s is not a one-expression function' % fn)
        raise Undecidable('%s has no return' % fn)


def byteset(prog, f, pred, bind, signed=True, extra_env=None):
    """Set of byte values b in 0..255 such that pred is true when the character designated by `bind` has value b.
    bind: function(expr node) -> True if that node denotes the current character (replaced by the byte value)."""
    out = set()
    for b in range(256):
        v = b - 256 if (signed and b > 127) else b
        ev = _Bound(prog, f, bind, v, extra_env)
        if ev.ev(pred):
            out.add(b)
    return out


class _Bound(Evaluator):
    def __init__(self, prog, f, bind, value, extra_env=None):
        Evaluator.__init__(self, prog, f, extra_env or {})
        self.bind = bind
        self.value = value

    def ev(self, e):
        if e is not None and self.bind(e):
            return self.value
        return Evaluator.ev(self, e)


def fmt_set(s_):
    """compact printable description of a byte set"""
    out = []
    b = 0
    items = sorted(s_)
    i = 0
    while i < len(items):
        j = i
        while j + 1 < len(items) and items[j + 1] == items[j] + 1:
            j += 1
        def c(v):
            return repr(chr(v)) if 33 <= v < 127 else '0x%02x' % v
        out.append(c(items[i]) if i == j else '%s-%s' % (c(items[i]), c(items[j])))
        i = j + 1
    return '{' + ' '.join(out) + '}'
