"""Cell-level interpretation of a small byte-shuffling function (swapBytes and friends).

Data are symbolic (a cell holds "byte k of the argument on entry", never a number); control is concrete: local integer
counters and pointer positions inside constant-size local byte arrays are tracked exactly, loops are unrolled while their
conditions evaluate (bounded).  The outcome is, for each byte of the object written back, which entry byte it holds -
valid for every argument value at once.  Anything outside this fragment raises Unsupported (-> undecided)."""
from ir import strip, strip_lv, const_val, T, pe

MAX_STEPS = 4000


class Unsupported(Exception):
    pass


class Sim:
    def __init__(self, prog, f, obj_param_id, size, bind=None, sinks=()):
        self.prog, self.f = prog, f
        self.obj = obj_param_id            # the reference parameter whose bytes are shuffled
        self.size = size
        self.arrays = {}                   # var id -> [cell]
        self.ptrs = {}                     # var id -> (array id, index)
        self.ints = {}                     # var id -> int
        self.cells = {}                    # var id -> cell (scalar byte temporaries)
        self.out = None                    # cells written back into the object
        self.loaded = False
        self.steps = 0
        self.bind = bind                   # callable(expr) -> int or None: members with a fixed value (byte-order selector)
        self.sinks = set(sinks)            # member functions that consume (ptr, n): their cells are recorded
        self.written = []                  # one list of cells per sink call

    def tick(self):
        self.steps += 1
        if self.steps > MAX_STEPS:
            raise Unsupported('too many steps')

    # ------------------------------------------------------------ expressions
    def is_obj_addr(self, e):
        e = strip(e)
        while e.get('k') == 'cast':
            e = strip(e['e'])
        if e.get('k') == 'un' and e.get('op') == '&':
            t = strip_lv(e['e'])
            if t.get('k') == 'var' and t.get('id') == self.obj:
                return True
            # &x.b[0] style members are not handled
        return False

    def ptr(self, e):
        """-> (array id, index) ; performs ++/-- side effects"""
        self.tick()
        e0 = e
        e = strip(e)
        while e.get('k') == 'cast' and e.get('ck') in ('ArrayToPointerDecay', 'NoOp', 'BitCast', 'LValueToRValue'):
            e = strip(e['e'])
        k = e.get('k')
        if k == 'var':
            if e['id'] in self.arrays:
                return (e['id'], 0)
            if e['id'] in self.ptrs:
                return self.ptrs[e['id']]
            raise Unsupported('pointer %s' % e.get('n'))
        if k == 'un' and e.get('op') == '&':
            t = strip_lv(e['e'])
            if t.get('k') == 'idx':
                a, i = self.ptr(t['b'])
                return (a, i + self.int_(t['i']))
            if t.get('k') == 'un' and t.get('op') == '*':
                return self.ptr(t['e'])
            raise Unsupported('address of `%s`' % pe(t))
        if k == 'un' and e.get('op') in ('post++', 'post--', 'pre++', 'pre--'):
            t = strip_lv(e['e'])
            if t.get('k') != 'var' or t['id'] not in self.ptrs:
                raise Unsupported('step of `%s`' % pe(t))
            a, i = self.ptrs[t['id']]
            d = 1 if '++' in e['op'] else -1
            self.ptrs[t['id']] = (a, i + d)
            return (a, i) if e['op'].startswith('post') else (a, i + d)
        if k == 'bin' and e.get('op') in ('+', '-'):
            tx = T(self.f, strip(e['x']).get('t'))
            if tx.get('ptr') or tx.get('arr') is not None or strip(e['x']).get('k') == 'cast':
                try:
                    a, i = self.ptr(e['x'])
                    n = self.int_(e['y'])
                    return (a, i + n if e['op'] == '+' else i - n)
                except Unsupported:
                    if e['op'] == '+':
                        a, i = self.ptr(e['y'])
                        return (a, i + self.int_(e['x']))
                    raise
        raise Unsupported('pointer expression `%s`' % pe(e0))

    def int_(self, e):
        self.tick()
        e0 = e
        cv = const_val(e)
        if cv is not None:
            return cv
        if self.bind is not None:
            b_ = self.bind(strip_lv(e))
            if b_ is not None:
                return b_
        e = strip(e)
        k = e.get('k')
        if self.bind is not None and k in ('mem', 'call'):
            b_ = self.bind(e)
            if b_ is not None:
                return b_
        if k == 'int':
            return e['v']
        if k == 'sizeof' and 'cv' in e:
            return e['cv']
        if k == 'cast':
            return self.int_(e['e'])
        if k == 'var':
            if e['id'] in self.ints:
                return self.ints[e['id']]
            if 'cv' in e:
                return e['cv']
            raise Unsupported('integer %s' % e.get('n'))
        if k == 'un':
            op = e['op']
            if op in ('post++', 'post--', 'pre++', 'pre--'):
                t = strip_lv(e['e'])
                if t.get('k') == 'var' and t['id'] in self.ints:
                    old = self.ints[t['id']]
                    self.ints[t['id']] = old + (1 if '++' in op else -1)
                    return old if op.startswith('post') else self.ints[t['id']]
                raise Unsupported('step of `%s`' % pe(t))
            v = self.int_(e['e'])
            return {'-': -v, '!': int(not v), '~': ~v, '+': v}[op]
        if k == 'bin':
            op = e['op']
            if op in ('<', '>', '<=', '>=', '==', '!='):
                tx = T(self.f, strip(e['x']).get('t'))
                if tx.get('ptr'):
                    (a1, i1), (a2, i2) = self.ptr(e['x']), self.ptr(e['y'])
                    if a1 != a2:
                        raise Unsupported('comparison of pointers into different arrays')
                    a, b = i1, i2
                else:
                    a, b = self.int_(e['x']), self.int_(e['y'])
                return int({'<': a < b, '>': a > b, '<=': a <= b, '>=': a >= b, '==': a == b, '!=': a != b}[op])
            if op == '&&':
                return int(bool(self.int_(e['x'])) and bool(self.int_(e['y'])))
            if op == '||':
                return int(bool(self.int_(e['x'])) or bool(self.int_(e['y'])))
            if op == '-' and T(self.f, strip(e['x']).get('t')).get('ptr'):
                (a1, i1), (a2, i2) = self.ptr(e['x']), self.ptr(e['y'])
                if a1 != a2:
                    raise Unsupported('difference of pointers into different arrays')
                return i1 - i2
            a, b = self.int_(e['x']), self.int_(e['y'])
            if op in ('/', '%') and b == 0:
                raise Unsupported('division by zero')
            return {'+': a + b, '-': a - b, '*': a * b, '/': int(a / b) if b else 0, '%': a - int(a / b) * b if b else 0, '>>': a >> b, '<<': a << b, '&': a & b, '|': a | b, '^': a ^ b}[op]
        raise Unsupported('integer expression `%s`' % pe(e0))

    def load(self, loc):
        a, i = loc
        arr = self.arrays[a]
        if not 0 <= i < len(arr):
            raise Unsupported('OOB:read of element %d of a %d-byte array' % (i, len(arr)))
        return arr[i]

    def store(self, loc, v):
        a, i = loc
        arr = self.arrays[a]
        if not 0 <= i < len(arr):
            raise Unsupported('OOB:write of element %d of a %d-byte array' % (i, len(arr)))
        arr[i] = v

    def loc(self, e):
        """location of an lvalue byte expression"""
        e = strip_lv(e)
        if e.get('k') == 'idx':
            a, i = self.ptr(e['b'])
            return (a, i + self.int_(e['i']))
        if e.get('k') == 'un' and e.get('op') == '*':
            return self.ptr(e['e'])
        return None

    def byte(self, e):
        self.tick()
        e0 = e
        e = strip(e)
        while e.get('k') == 'cast':
            e = strip(e['e'])
        if e.get('k') == 'var' and e['id'] in self.cells:
            return self.cells[e['id']]
        l = self.loc(e)
        if l is not None:
            return self.load(l)
        raise Unsupported('byte expression `%s`' % pe(e0))

    # ------------------------------------------------------------ statements
    def expr(self, e):
        self.tick()
        e = strip(e)
        k = e.get('k')
        if k == 'call' and e.get('fn') in ('memcpy', 'memmove') and len(e.get('a', [])) == 3:
            n = self.int_(e['a'][2])
            dst, src = e['a'][0], e['a'][1]
            if self.is_obj_addr(src):
                a, i = self.ptr(dst)
                if n > self.size:
                    raise Unsupported('OOB:copies %d bytes out of a %d-byte object' % (n, self.size))
                for j in range(n):
                    self.store((a, i + j), ('in', j))
                self.loaded = True
                return
            if self.is_obj_addr(dst):
                a, i = self.ptr(src)
                if n > self.size:
                    raise Unsupported('OOB:copies %d bytes into a %d-byte object' % (n, self.size))
                out = list(self.out) if self.out is not None else [('in', j) for j in range(self.size)]
                for j in range(n):
                    out[j] = self.load((a, i + j))
                self.out = out
                return
            (a1, i1), (a2, i2) = self.ptr(dst), self.ptr(src)
            vals = [self.load((a2, i2 + j)) for j in range(n)]
            for j in range(n):
                self.store((a1, i1 + j), vals[j])
            return
        if k == 'bin' and e.get('op') == '=':
            t = strip_lv(e['x'])
            if t.get('k') == 'var':
                vid = t['id']
                tt = T(self.f, t.get('t'))
                if vid in self.ptrs or tt.get('ptr'):
                    self.ptrs[vid] = self.ptr(e['y'])
                elif vid in self.cells:
                    self.cells[vid] = self.byte(e['y'])
                else:
                    self.ints[vid] = self.int_(e['y'])
                return
            v = self.byte(e['y'])
            l = self.loc(e['x'])
            if l is None:
                raise Unsupported('store to `%s`' % pe(e['x']))
            self.store(l, v)
            return
        if k == 'bin' and e.get('op') in ('+=', '-='):
            t = strip_lv(e['x'])
            if t.get('k') == 'var' and t['id'] in self.ints:
                d = self.int_(e['y'])
                self.ints[t['id']] += d if e['op'] == '+=' else -d
                return
            if t.get('k') == 'var' and t['id'] in self.ptrs:
                d = self.int_(e['y'])
                a, i = self.ptrs[t['id']]
                self.ptrs[t['id']] = (a, i + (d if e['op'] == '+=' else -d))
                return
            raise Unsupported('compound assignment to `%s`' % pe(t))
        if k == 'un' and e.get('op') in ('post++', 'post--', 'pre++', 'pre--'):
            t = strip_lv(e['e'])
            if t.get('k') == 'var' and t['id'] in self.ptrs:
                self.ptr(e)
            else:
                self.int_(e)
            return
        if k == 'bin' and e.get('op') == ',':
            self.expr(e['x'])
            self.expr(e['y'])
            return
        if k == 'call' and (e.get('fn') or e.get('pq') or '').split('::')[-1] in self.sinks and len(e.get('a', [])) == 2:
            a, i = self.ptr(e['a'][0])
            n = self.int_(e['a'][1])
            self.written.append([self.load((a, i + j)) for j in range(n)])
            return
        if k == 'call' and (e.get('fn') or '').split('::')[-1] == 'swap' and len(e.get('a', [])) == 2:
            l1, l2 = self.loc(e['a'][0]), self.loc(e['a'][1])
            if l1 is None or l2 is None:
                raise Unsupported('swap of `%s`' % pe(e))
            v1, v2 = self.load(l1), self.load(l2)
            self.store(l1, v2)
            self.store(l2, v1)
            return
        raise Unsupported('expression `%s`' % pe(e))

    def stmt(self, s):
        self.tick()
        if s is None:
            return None
        k = s.get('k')
        if k == 'block':
            for x in s['s']:
                r = self.stmt(x)
                if r:
                    return r
            return None
        if k == 'decl':
            for v in s['vars']:
                tv = T(self.f, v['t'])
                if tv.get('arr') is not None or tv.get('n') is not None:
                    n = tv.get('n')
                    el = T(self.f, tv.get('to') or tv.get('el'))
                    if n is None or (el.get('sz') not in (1, None)):
                        raise Unsupported('array %s' % v['n'])
                    self.arrays[v['id']] = [('undef', v['n'], j) for j in range(n)]
                elif tv.get('ptr'):
                    if v.get('init') is not None:
                        self.ptrs[v['id']] = self.ptr(v['init'])
                    else:
                        self.ptrs[v['id']] = None
                elif tv.get('int') and tv.get('bits') == 8 and v.get('init') is not None and const_val(v['init']) is None:
                    self.cells[v['id']] = self.byte(v['init'])
                elif tv.get('int'):
                    if v.get('init') is not None:
                        self.ints[v['id']] = self.int_(v['init'])
                    else:
                        self.ints[v['id']] = 0
                else:
                    raise Unsupported('local %s of type %s' % (v['n'], tv.get('s')))
            return None
        if k == 'expr':
            self.expr(s['e'])
            return None
        if k == 'if':
            return self.stmt(s['then'] if self.int_(s['c']) else s.get('else'))
        if k in ('for', 'while'):
            if s.get('init') is not None:
                self.stmt(s['init'])
            while s.get('c') is None or self.int_(s['c']):
                r = self.stmt(s['body'])
                if r == 'break':
                    break
                if r == 'return':
                    return r
                if s.get('inc') is not None:
                    self.expr(s['inc'])
            return None
        if k == 'do':
            while True:
                r = self.stmt(s['body'])
                if r == 'break':
                    break
                if r == 'return':
                    return r
                if not self.int_(s['c']):
                    break
            return None
        if k == 'return':
            return 'return'
        if k == 'break':
            return 'break'
        if k == 'continue':
            return 'continue'
        if k in ('null', 'empty'):
            return None
        raise Unsupported('statement kind %s' % k)


def permutation(prog, f, obj_param_id, size):
    """-> list p with: byte j of the object after the call = byte p[j] of the object before it; raises Unsupported"""
    sim = Sim(prog, f, obj_param_id, size)
    sim.stmt(f['body'])
    if sim.out is None:
        raise Unsupported('the object is never written back')
    p = []
    for j, c in enumerate(sim.out):
        if c[0] != 'in':
            raise Unsupported('UNDEF:byte %d of the result is an uninitialised byte of a temporary' % j)
        p.append(c[1])
    return p
