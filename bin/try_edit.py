#!/usr/bin/env python3
"""usage: try_edit.py <props,comma-separated> <file> <old> <new> [<file> <old> <new> ...]
Applies textual edits (CRLF-aware) to a scratch worktree of /repo, runs the named checks against it and removes it.
With --save <path> also writes the resulting `git diff` there. Checker self-test aid; never touches /repo's working tree."""
import sys, os, subprocess, tempfile, shutil
args = sys.argv[1:]
save = None
if args[0] == '--save':
    save = args[1]; args = args[2:]
props = args[0].split(',')
edits = args[1:]
wt = tempfile.mkdtemp(prefix='asl_try.', dir='/tmp'); os.rmdir(wt)
subprocess.check_call(['git', '-C', '/repo', 'worktree', 'add', '-q', '--detach', wt, 'HEAD'])
rc = 0
try:
    for i in range(0, len(edits), 3):
        p = os.path.join(wt, edits[i]); old = edits[i+1]; new = edits[i+2]
        s = open(p, newline='').read()
        if '\r\n' in s:
            old = old.replace('\n', '\r\n'); new = new.replace('\n', '\r\n')
        if s.count(old) != 1:
            print('EDIT DOES NOT APPLY (%d matches): %s' % (s.count(old), old)); sys.exit(3)
        open(p, 'w', newline='').write(s.replace(old, new))
    if save:
        open(save, 'w').write(subprocess.check_output(['git', '-C', wt, 'diff']).decode())
    env = dict(os.environ, ASL_REPO=wt, ASL_EVIDENCE_DIR=os.path.join(wt, '.evidence'))
    for p in props:
        if p.startswith('@'):   # @script.py: run a development script against the scratch tree instead of a registered check
            r = subprocess.run([sys.executable, p[1:]], env=env, stdout=subprocess.PIPE, universal_newlines=True)
            sys.stdout.write(r.stdout.replace(wt, '/repo'))
            continue
        r = subprocess.run([sys.executable, os.path.join(os.path.dirname(os.path.abspath(__file__)), 'aslverif.py'), 'check', p, '--tier', os.environ.get('TIER', 'quick')],
                           env=env, stdout=subprocess.PIPE, universal_newlines=True)
        sys.stdout.write(r.stdout.replace(wt, '/repo'))
        rc = max(rc, r.returncode)
finally:
    subprocess.call(['git', '-C', '/repo', 'worktree', 'remove', '--force', wt])
    shutil.rmtree(wt, ignore_errors=True)
sys.exit(rc)
