"""What a character-escaping loop writes for each byte value.

The writer function (an XML / JSON string escaper) has one "current character" and a number of writes to an output
stream, each under guards (switch labels, if chains, results of helper look-ups).  For each of the 255 non-NUL byte
values the current character is bound to that value, the writes whose guards admit it are collected in source order and
their arguments evaluated: a string literal, the character itself, or a local buffer filled by snprintf with a literal
format.  Nothing is executed; only guards and arguments (expression trees) are evaluated (bounded / bytesets)."""
import re
from ir import strip, strip_lv, const_val, T, pe, walk_expr, walk_stmts, fn_exprs
import q
import bounded
import bytesets


class Unresolved(Exception):
    pass


def emit_table(prog, f, out_field=None, out_pred=None, extra_env=None):
    """-> ({byte: list of emitted byte values}, reject set or None).  Raises Unresolved with the reason."""
    G = q.Guarded(f)
    cur_ids, cur_texts = {}, {}          # id / printed text -> signed?
    for s_ in walk_stmts(f['body']):
        if s_.get('k') in ('while', 'for', 'if') and s_.get('cv'):
            if T(f, s_['cv']['t']).get('bits') == 8:
                cur_ids[s_['cv']['id']] = bool(T(f, s_['cv']['t']).get('sg', True))
    for e in fn_exprs(f):
        if e.get('k') in ('un', 'idx') and (e.get('op') == '*' or e.get('k') == 'idx') and T(f, e.get('t')).get('bits') == 8 and \
                not (e.get('k') == 'idx' and strip(e['b']).get('k') == 'var' and T(f, strip(e['b']).get('t')).get('arr') is not None):
            cur_texts[pe(e)] = bool(T(f, e.get('t')).get('sg', True))
        if e.get('k') == 'call' and e.get('op') == '[]' and T(f, e.get('t')).get('bits') == 8:
            cur_texts[pe(e)] = bool(T(f, e.get('t')).get('sg', True))
    from ir import stmt_exprs
    in_loop = set(id(e) for lp in walk_stmts(f['body']) if lp.get('k') in ('for', 'while', 'do') for e in stmt_exprs(lp['body']))
    if out_pred is None:
        out_pred = lambda x: any(w.get('k') == 'mem' and w.get('f') == out_field for w in walk_expr(x))

    def is_write(e):
        return e.get('k') == 'call' and (e.get('op') in ('<<', '+=') or (e.get('pq') or '').split('::')[-1] in ('append',)) and e.get('a')

    def chain_root(e):
        o = e.get('obj') or (e['a'][0] if e.get('a') else {})
        while isinstance(o, dict):
            o2 = strip(o)
            while o2.get('k') in ('cast', 'temp'):
                o2 = strip(o2['e'])
            if is_write(o2):
                o = o2.get('obj') or {}
                continue
            return o2
        return {}
    allw = [e for e in fn_exprs(f) if id(e) in in_loop and is_write(e) and out_pred(chain_root(e))]
    inner = set()
    for e in allw:
        o = strip(e.get('obj') or {})
        while o.get('k') in ('cast', 'temp'):
            o = strip(o['e'])
        if is_write(o):
            inner.add(id(o))
    maximal = [e for e in allw if id(e) not in inner]
    # flatten every chain `out << a << b` into its arguments in emission order; each keeps the guards of its statement
    writes = []
    for m in maximal:
        seq = []
        e = m
        while isinstance(e, dict) and is_write(e):
            seq.append(e)
            o = strip(e.get('obj') or {})
            while o.get('k') in ('cast', 'temp'):
                o = strip(o['e'])
            e = o
        seq.reverse()
        writes.append((m, seq))
    if not writes or len(cur_texts) + len(cur_ids) == 0:
        raise Unresolved('output writes or current-character expression not found')
    order = dict((id(x), i) for i, x in enumerate(G.order))
    writes.sort(key=lambda ms: order.get(id(ms[0]), 0))
    writes = [(w_, m_) for m_, seq_ in writes for w_ in seq_]
    # bulk form: append(p, strcspn(p, "<reject set>")) copies a run of bytes outside the reject set raw; only bytes of the
    # reject set ever reach the per-character writes
    reject = None
    for wm in list(writes):
        w = wm[0]
        if len(w['a']) == 2:
            ln = strip(q.expand(f, w['a'][1]))
            while ln.get('k') == 'cast':
                ln = strip(ln['e'])
            if ln.get('k') == 'call' and ln.get('fn') == 'strcspn' and strip(ln['a'][1]).get('k') == 'str' and reject is None:
                reject = set(strip(ln['a'][1])['b'])
                writes.remove(wm)
            else:
                raise Unresolved('bulk write `%s` with an unrecognised length' % pe(w))
    fmts = [e for e in fn_exprs(f) if e.get('k') == 'call' and e.get('fn') in ('snprintf', 'sprintf')]
    table = {}
    for bv in range(1, 256):
        if reject is not None and bv not in reject:
            table[bv] = [bv]
            continue
        sv = bv - 256 if bv > 127 else bv
        env_ = dict((i, sv if sg else bv) for i, sg in cur_ids.items())
        env_.update(extra_env or {})
        ev = bounded.Bound(prog, f, env_, dict((t, sv if sg else bv) for t, sg in cur_texts.items()))
        out = []

        def relevant(c_):
            # a guard speaks about the current character if it mentions it (directly or through expanded locals)
            for x in walk_expr(q.expand(f, c_)):
                if x.get('k') == 'var' and x.get('id') in cur_ids:
                    return True
                if x.get('k') in ('un', 'idx', 'call') and pe(x) in cur_texts:
                    return True
            return False
        for w, m_ in writes:
            adm = bounded.admitted3(ev, G.of(m_), G, relevant=relevant)
            if adm is False:
                continue
            if adm is None:
                raise Unresolved('whether `%s` runs for byte %d depends on a guard that is not evaluable' % (pe(w)[:60], bv))
            arg = w['a'][-1]
            a0 = strip(arg)
            while a0.get('k') == 'cast':
                a0 = strip(a0['e'])
            if a0.get('k') == 'var' and T(f, a0.get('t')).get('arr') is not None or (a0.get('k') == 'var' and T(f, a0.get('dt') or a0.get('t')).get('n') is not None):
                # a local buffer: filled by the snprintf admitted for this byte
                cands = [s_ for s_ in fmts if strip(s_['a'][0]).get('k') in ('var', 'cast') and any(x.get('k') == 'var' and x.get('id') == a0['id'] for x in walk_expr(s_['a'][0])) and bounded.admitted(ev, G.of(s_), G)]
                if not cands:
                    # no snprintf: the buffer's initialiser updated by the element stores `buf[k] = e` admitted for this byte
                    decl = [v for s_ in walk_stmts(f['body']) if s_.get('k') == 'decl' for v in s_['vars'] if v['id'] == a0['id']]
                    size = T(f, a0.get('dt') or a0.get('t')).get('n')
                    if not decl or not size:
                        raise Unresolved('buffer `%s` written for byte %d: declaration not found' % (a0.get('n'), bv))
                    ini = strip(decl[0].get('init') or {})
                    buf = [None] * size
                    if ini.get('k') == 'initlist':
                        items = ini.get('items', [])
                        for j in range(size):
                            buf[j] = const_val(items[j]) if j < len(items) else 0
                    elif ini.get('k') == 'str':
                        for j in range(size):
                            buf[j] = ini['b'][j] if j < len(ini['b']) else 0
                    order = dict((id(x), i) for i, x in enumerate(G.order))
                    sts = []
                    for x in fn_exprs(f):
                        if x.get('k') == 'bin' and x.get('op') == '=' and strip_lv(x['x']).get('k') == 'idx' and strip(strip_lv(x['x'])['b']).get('id') == a0['id']:
                            sts.append(x)
                    sts.sort(key=lambda x: order.get(id(x), 0))
                    for x in sts:
                        if order.get(id(x), 0) > order.get(id(m_), 1 << 30) or not bounded.admitted(ev, G.of(x), G):
                            continue
                        try:
                            k_ = ev.ev(strip_lv(x['x'])['i'])
                            val_ = ev.ev(x['y'])
                        except bytesets.Undecidable as u:
                            raise Unresolved('store into buffer `%s` for byte %d: %s' % (a0.get('n'), bv, u))
                        if not 0 <= k_ < size:
                            raise Unresolved('store into buffer `%s` at index %d outside its %d elements' % (a0.get('n'), k_, size))
                        buf[k_] = val_ & 255
                    for c_ in buf:
                        if c_ is None:
                            raise Unresolved('buffer `%s` written for byte %d holds an unset element' % (a0.get('n'), bv))
                        if c_ == 0:
                            break
                        out.append(c_)
                    else:
                        raise Unresolved('buffer `%s` written for byte %d is not terminated' % (a0.get('n'), bv))
                    continue
                if len(cands) != 1:
                    raise Unresolved('buffer `%s` written for byte %d is not filled by exactly one snprintf' % (a0.get('n'), bv))
                sp = cands[0]
                fi = 2 if sp['fn'] == 'snprintf' else 1
                fmt = strip(sp['a'][fi])
                if fmt.get('k') != 'str':
                    raise Unresolved('non-literal format')
                fs = bytes(fmt['b']).decode('latin-1')
                try:
                    vals = tuple(ev.ev(x) for x in sp['a'][fi + 1:])
                except bytesets.Undecidable as u:
                    raise Unresolved('snprintf argument for byte %d: %s' % (bv, u))
                if not re.fullmatch(r'(?:[^%]|%%|%0?\d*[xXdu])*', fs):
                    raise Unresolved('format `%s` outside the supported subset' % fs)
                text = fs % vals
                if sp['fn'] == 'snprintf':
                    try:
                        cap = ev.ev(sp['a'][1])
                        text = text[:max(0, cap - 1)]
                    except bytesets.Undecidable:
                        pass
                out.extend(ord(ch) for ch in text)
                continue
            try:
                v = ev.ev(arg)
            except bytesets.Undecidable as u:
                raise Unresolved('write `%s` for byte %d: %s' % (pe(w), bv, u))
            if isinstance(v, bytesets.StrVal):
                out.extend(v.b)
            else:
                out.append(v & 255)
        table[bv] = out
    return table, reject


def interp_table(prog, f, out_field):
    """The same table by interpretation of the whole escaper (scansim; the output member is a text sink): the function is run on
    every one-byte string, and on every string of two and three bytes over the bytes it treats specially (plus two plain
    ones) to establish that what it writes for a byte does not depend on its neighbours - a whole-string shortcut (e.g. a
    `strpbrk` pre-test) or a look-ahead shows up here.  -> (table {byte: emitted bytes}, framing (prefix, suffix),
    context issues [(input bytes, emitted, expected)]).  Raises Unresolved when the body is outside the interpreted fragment."""
    import scansim, itertools
    if not f['params']:
        raise Unresolved('escaper without a parameter')
    p0 = f['params'][0]
    pt = T(f, p0['t'])
    base = T(f, pt.get('to')) if (pt.get('ref') or pt.get('ptr')) else pt
    as_string = base.get('rec') == 'asl::String'
    if not as_string and not (pt.get('ptr') and base.get('bits') == 8):
        raise Unresolved('escaper parameter is neither a C string nor a String')

    def run(bs):
        chars = [b - 256 if b > 127 else b for b in bs] + [0]
        bufs = {'OUT': []}
        if as_string:
            bufs[('O', p0['id'])] = chars
            r = scansim.Run(prog, f, bufs, growable=('OUT',), objects=True)
            r.objlen[p0['id']] = len(bs)
        else:
            bufs['IN'] = chars
            r = scansim.Run(prog, f, bufs, ptr_params={p0['id']: ('P', 'IN', 0)}, growable=('OUT',), objects=True)
        r.sinks = {out_field: 'OUT'}
        try:
            r.run()
        except scansim.OOB as o:
            raise Unresolved('interpreted on %s: %s' % (bs, o))
        except (scansim.Unsupported, TypeError, KeyError, IndexError) as u:
            raise Unresolved('outside the interpreted fragment: %s' % u)
        out = bufs['OUT']
        if not all(isinstance(x, int) for x in out):
            raise Unresolved('abstract output')
        return [x & 255 for x in out]
    oa = run([0x61])
    if oa.count(0x61) != 1:
        raise Unresolved('framing not recognised')
    k = oa.index(0x61)
    pre, suf = oa[:k], oa[k + 1:]

    def body(out):
        if out[:len(pre)] != pre or (suf and out[-len(suf):] != suf) or len(out) < len(pre) + len(suf):
            return None
        return out[len(pre):len(out) - len(suf)]
    table = {}
    for bv in range(1, 256):
        b_ = body(run([bv]))
        if b_ is None:
            raise Unresolved('framing differs for byte %d' % bv)
        table[bv] = b_
    special = [b for b in range(1, 256) if table[b] != [b]]
    alpha = sorted(set(special[:12] + [0x61, 0x20, 0x22, 0x27, 0x26, 0x3c, 0x3e, 0x5c, 0xe9]))[:14]
    issues = []
    for n_ in (2, 3):
        for t in itertools.product(alpha if n_ == 2 else alpha[:8], repeat=n_):
            got = body(run(list(t)))
            want = [x for b in t for x in table[b]]
            if got != want:
                issues.append((list(t), got, want))
                if len(issues) > 3:
                    return table, (pre, suf), issues
    return table, (pre, suf), issues


def interp_table_ret(prog, f, fixed=None):
    """interp_table for an escaper that *returns* its text (a local String it builds): f(const String& / const char*, fixed
    further arguments {param index: value}).  -> (table, framing, context issues)"""
    import scansim, itertools
    p0 = f['params'][0]
    pt = T(f, p0['t'])
    base = T(f, pt.get('to')) if (pt.get('ref') or pt.get('ptr')) else pt
    as_string = base.get('rec') == 'asl::String'
    if not as_string and not (pt.get('ptr') and base.get('bits') == 8):
        raise Unresolved('escaper parameter is neither a C string nor a String')

    def run(bs):
        chars = [b - 256 if b > 127 else b for b in bs] + [0]
        bufs = {}
        if as_string:
            bufs[('O', p0['id'])] = chars
            r = scansim.Run(prog, f, bufs, objects=True)
            r.objlen[p0['id']] = len(bs)
            r.strobjs.add(p0['id'])
        else:
            bufs['IN'] = chars
            r = scansim.Run(prog, f, bufs, ptr_params={p0['id']: ('P', 'IN', 0)}, objects=True)
        for k, v in (fixed or {}).items():
            r.vars[f['params'][k]['id']] = v
        try:
            ret = r.run()
        except scansim.OOB as o:
            raise Unresolved('interpreted on %s: %s' % (bs, o))
        except (scansim.Unsupported, TypeError, KeyError, IndexError) as u:
            raise Unresolved('outside the interpreted fragment: %s' % u)
        if not (isinstance(ret, tuple) and ret[0] == 'P' and isinstance(ret[1], tuple) and ret[1][0] == 'O' and ret[1][1] != p0['id']):
            raise Unresolved('the result is not a local string')
        out = bufs[ret[1]]
        if not all(isinstance(x, int) for x in out) or 0 not in out:
            raise Unresolved('abstract or unterminated output')
        return [x & 255 for x in out[:out.index(0)]]
    table = {}
    for bv in range(1, 256):
        table[bv] = run([bv])
    special = [b for b in range(1, 256) if table[b] != [b]]
    alpha = sorted(set(special[:6] + [0x61, 0x25, 0x2b, 0x26, 0x3d, 0x2f, 0x20, 0xe9]))[:10]
    issues = []
    for n_ in (2, 3):
        for t in itertools.product(alpha if n_ == 2 else alpha[:6], repeat=n_):
            got = run(list(t))
            want = [x for b in t for x in table[b]]
            if got != want:
                issues.append((list(t), got, want))
                if len(issues) > 3:
                    return table, ([], []), issues
    return table, ([], []), issues
