// Instantiation driver (never compiled to code, never linked, never run): uses the function/lambda thread
// constructor, parallel_for, parallel_invoke and ThreadGroup so that their templates get bodies to analyse.
#include <asl/Thread.h>
#include <asl/Mutex.h>

namespace aslverif_driver {
struct Worker : public asl::Thread { void run() {} };
void use()
{
	int k = 0;
	asl::Thread t([&]() { k++; });
	t.join();
	(void)t.finished();
	asl::Thread::parallel_for(0, 10, [&](int i) { k += i; }, 4);
	asl::Thread::parallel_invoke([&]() { k++; }, [&]() { k++; });
	asl::Thread::parallel_invoke([&]() { k++; }, [&]() { k++; }, [&]() { k++; });
	asl::Thread::parallel_invoke([&]() { k++; }, [&]() { k++; }, [&]() { k++; }, [&]() { k++; });
	asl::ThreadGroup<Worker> g;
	g << Worker();
	g.start();
	g.join();
	Worker w; w.start(); w.join();
	asl::Thread t0; (void)asl::Thread::start([&]() { k++; }, &t0); t0.join();
	asl::Semaphore s; s.post(); s.post(2); s.wait(); (void)s.trywait();
	asl::Mutex m; asl::Condition c(m); c.signal(); m.lock(); c.wait(); m.unlock();
}
}
