// Instantiation driver (never compiled to code, never linked, never run): names the handle and
// atomic wrapper specialisations whose members the reference-count and lock rules analyse.
#include <asl/Array.h>
#include <asl/HashMap.h>
#include <asl/Map.h>
#include <asl/Pointer.h>
#include <asl/Shared.h>
#include <asl/Mutex.h>
#include <asl/String.h>
#include <asl/Var.h>

namespace aslverif_driver {
struct Payload { int v; Payload* clone() const { return new Payload(*this); } virtual ~Payload() {} };
struct Derived : Payload { int w; };
template<class T> struct Complete { enum { size = sizeof(T) }; };
enum {
	h01 = Complete<asl::Array<int> >::size,
	h02 = Complete<asl::Array<asl::String> >::size,
	h03 = Complete<asl::HashMap<int, int> >::size,
	h04 = Complete<asl::HashMap<asl::String, asl::String> >::size,
	h05 = Complete<asl::Shared<Payload> >::size,
	h06 = Complete<asl::SharedCore<Payload> >::size,
	h07 = Complete<asl::Atomic<int> >::size,
	h08 = Complete<asl::Atomic<double> >::size,
	h09 = Complete<asl::Atomic<asl::Array<int> > >::size,
	h10 = Complete<asl::Locked<int> >::size,
	h11 = Complete<asl::Locked<asl::Array<int> > >::size,
	h12 = Complete<asl::Map<int, int> >::size,
	h13 = Complete<asl::Atomic<unsigned> >::size
};
void use(asl::Shared<Derived>& d, asl::Atomic<int>& ai, asl::Atomic<asl::Array<int> >& aa)
{
	asl::Shared<Payload> p(d);
	p = d;
	asl::Shared<Derived> q = p.as<Derived>();
	asl::SmartObject so, so2(so);
	so = so2;
	(void)so.clone();
	ai << 1; int k; ai >> k;
	aa << 3;
	aa->length();
}
}
