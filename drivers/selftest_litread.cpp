// positive / negative example for R-LITREAD (bin/litread.py): the rule must report the first function and accept the second
#include <asl/String.h>
namespace selftest {
void unbounded(asl::String& out, int level) { out.append("\t\t\t\t", level); }
void bounded(asl::String& out, int level) { if (level >= 0 && level <= 4) out.append("\t\t\t\t", level); }
}
