// Instantiation driver (never compiled to code, never linked, never run): uses the stream operator
// templates of StreamBuffer, StreamBufferReader, File and Socket for each scalar width and for arrays,
// so that every template gets a body to analyse.
#include <asl/StreamBuffer.h>
#include <asl/File.h>
#include <asl/Socket.h>

namespace aslverif_driver {
using namespace asl;

template<class S>
void writeAll(S& s)
{
	signed char sc = 0; char c = 0; byte b = 0; bool t = false;
	short h = 0; unsigned short uh = 0; int i = 0; unsigned u = 0; Long l = 0; ULong ul = 0; float f = 0; double d = 0;
	s << sc << c << b << t << h << uh << i << u << l << ul << f << d;
	Array<short> ah; Array<int> ai; Array<Long> al; Array<float> af; Array<double> ad; Array<byte> ab; Array<unsigned> au;
	s << ah << ai << al << af << ad << ab << au;
	String str;
	s << str << "text";
}

template<class S>
void readAll(S& s)
{
	signed char sc; char c; byte b;
	short h; unsigned short uh; int i; unsigned u; Long l; ULong ul; float f; double d;
	s >> sc >> c >> b >> h >> uh >> i >> u >> l >> ul >> f >> d;
}

void use(StreamBuffer& sb, StreamBufferReader& sr, File& file, Socket& sock)
{
	writeAll(sb);
	writeAll(file);
	writeAll(sock);
	readAll(sr);
	readAll(file);
	readAll(sock);
	bool t; sr >> t;
	(void)file.read<int>();
	(void)file.read<double>();
	(void)sock.read<int>();
	(void)sock.read<Long>();
	(void)sock.read<unsigned short>();
	(void)sr.read<int>();
	(void)sr.read<double>();
	String s; file >> s;
	ByteArray ba = sr.read(4);
	(void)ba;
}
}
