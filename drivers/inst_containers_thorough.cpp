// Thorough-tier instantiation driver (never compiled to code, linked or run): wider element/key types.
#include <asl/Array.h>
#include <asl/Stack.h>
#include <asl/Queue.h>
#include <asl/Map.h>
#include <asl/HashMap.h>
#include <asl/Set.h>
#include <asl/String.h>
#include <asl/Var.h>

namespace aslverif_driver_thorough {
template<class T> struct Complete { enum { size = sizeof(T) }; };
enum {
	t01 = Complete<asl::Array<asl::Long> >::size,
	t02 = Complete<asl::Array<float> >::size,
	t03 = Complete<asl::Array<short> >::size,
	t04 = Complete<asl::Array<asl::Array<asl::String> > >::size,
	t05 = Complete<asl::Array<asl::Dic<asl::String> > >::size,
	t06 = Complete<asl::Stack<asl::Var> >::size,
	t07 = Complete<asl::Stack<asl::Array<int> > >::size,
	t08 = Complete<asl::Queue<int> >::size,
	t09 = Complete<asl::Queue<asl::Var> >::size,
	t10 = Complete<asl::Map<asl::String, int> >::size,
	t11 = Complete<asl::Map<int, asl::String> >::size,
	t12 = Complete<asl::Map<double, int> >::size,
	t13 = Complete<asl::Dic<int> >::size,
	t14 = Complete<asl::HashMap<asl::String, asl::Var> >::size,
	t15 = Complete<asl::HashMap<asl::Long, asl::String> >::size,
	t16 = Complete<asl::HashDic<int> >::size,
	t17 = Complete<asl::Set<asl::Long> >::size,
	t18 = Complete<asl::Set<double> >::size
};
}
