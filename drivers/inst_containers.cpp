// Instantiation driver (never compiled to code, never linked, never run): names container
// specialisations so that the front end gives every member template a body to analyse.
#include <asl/Array.h>
#include <asl/Stack.h>
#include <asl/Queue.h>
#include <asl/Map.h>
#include <asl/HashMap.h>
#include <asl/Set.h>
#include <asl/String.h>
#include <asl/Var.h>

namespace aslverif_driver {
template<class T> struct Complete { enum { size = sizeof(T) }; };
enum {
	c01 = Complete<asl::Array<int> >::size,
	c02 = Complete<asl::Array<asl::String> >::size,
	c03 = Complete<asl::Array<asl::Var> >::size,
	c04 = Complete<asl::Array<asl::Array<int> > >::size,
	c05 = Complete<asl::Stack<int> >::size,
	c06 = Complete<asl::Stack<asl::String> >::size,
	c07 = Complete<asl::Queue<asl::String> >::size,
	c08 = Complete<asl::Map<asl::String, asl::String> >::size,
	c09 = Complete<asl::Map<int, int> >::size,
	c10 = Complete<asl::Dic<asl::Var> >::size,
	c11 = Complete<asl::HashMap<int, int> >::size,
	c12 = Complete<asl::HashMap<asl::String, int> >::size,
	c13 = Complete<asl::HashDic<asl::String> >::size,
	c14 = Complete<asl::Set<int> >::size,
	c15 = Complete<asl::Set<asl::String> >::size,
	c16 = Complete<asl::Array<double> >::size,
	c17 = Complete<asl::Array<char> >::size,
	c18 = Complete<asl::Array<asl::byte> >::size
};
}

// member templates are not instantiated by completing the class: name the converting constructors the library offers
namespace aslverif_inst {
inline void converting_constructors()
{
	asl::Map<int, asl::String> mi;
	asl::Map<asl::String, asl::String> ms(mi);
	asl::Map<double, int> md;
	asl::Map<int, int> mii(md);
	asl::Dic<asl::String> ds(mi);
	(void)ms; (void)mii; (void)ds;
}

// functor-taking and converting member templates of Array: instantiated for a trivially copyable element and for String
struct IntPred { bool operator()(int x) const { return x > 0; } };
struct StrPred { bool operator()(const asl::String& x) const { return x.length() > 0; } };
struct IntLess { bool operator()(int a, int b) const { return a < b; } };
struct StrLess { bool operator()(const asl::String& a, const asl::String& b) const { return a < b; } };
struct IntKey { int operator()(int x) const { return -x; } };
struct StrKey { int operator()(const asl::String& x) const { return x.length(); } };
struct IntMap { int operator()(int x) const { return x + 1; } };
struct StrMap { asl::String operator()(const asl::String& x) const { return x; } };

inline void array_member_templates()
{
	asl::Array<int> ai;
	asl::Array<asl::String> as;
	ai.removeIf(IntPred()); as.removeIf(StrPred());
	(void)ai.filter(IntPred()); (void)as.filter(StrPred());
	ai.sort(IntLess()); as.sort(StrLess());
	ai.sortBy(IntKey()); as.sortBy(StrKey());
	(void)ai.map(IntMap()); (void)as.map(StrMap());
	asl::Array<double> ad(ai);
	ad = ai;
	(void)ai.with<double>();
	(void)ad;
}

// member templates of Var that take typed containers
inline void var_member_templates()
{
	asl::Array<int> ai;
	asl::Array<asl::String> as;
	asl::Dic<int> di;
	asl::Var v(ai), w(as), x(di);
	v = ai;
	w = as;
	x = di;
	(void)v; (void)w; (void)x;
}
}
