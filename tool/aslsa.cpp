// aslsa - resolved-program extractor for the asl static checks.
//
// Parses one translation unit with the clang 14 front end (real build flags), optionally forces
// the instantiation of every member of every class-template specialisation whose template is
// defined under the repository prefix, and writes a JSON "mini-IR" of
//   * every function definition located under the prefix (or in the main file): resolved callees,
//     structured statements, typed expressions, constant-evaluated integer sub-expressions,
//   * records (fields, bases, methods), enums, namespace-scope/static variables with initialisers.
// Everything rule-specific lives in the Python engine; this tool never decides a property.
//
// usage: aslsa [--force-inst] --prefix /repo [--prefix /verif/drivers] --out out.json file.cpp -- <flags>

#include "clang/AST/ASTConsumer.h"
#include "clang/AST/ASTContext.h"
#include "clang/AST/Decl.h"
#include "clang/AST/DeclCXX.h"
#include "clang/AST/DeclTemplate.h"
#include "clang/AST/Expr.h"
#include "clang/AST/ExprCXX.h"
#include "clang/AST/RecursiveASTVisitor.h"
#include "clang/AST/Stmt.h"
#include "clang/AST/StmtCXX.h"
#include "clang/Frontend/CompilerInstance.h"
#include "clang/Frontend/FrontendAction.h"
#include "clang/Sema/Sema.h"
#include "clang/Sema/SemaConsumer.h"
#include "clang/Sema/Template.h"
#include "clang/Tooling/CompilationDatabase.h"
#include "clang/Tooling/Tooling.h"
#include "llvm/Support/JSON.h"
#include "llvm/Support/raw_ostream.h"

#include <map>
#include <set>
#include <string>
#include <vector>

using namespace clang;
namespace json = llvm::json;

static std::vector<std::string> gPrefixes;
static std::string gOut;
static bool gForceInst = false;
static int gParseErrors = 0;

namespace {

class Extractor
{
public:
	ASTContext& C;
	SourceManager& SM;
	PrintingPolicy PP;
	std::map<const Decl*, int> ids;
	std::map<std::string, int> typeIds;
	json::Array types;
	json::Array functions, records, enums, globals;
	std::set<const Decl*> seenFn, seenRec, seenEnum, seenVar;
	std::vector<std::string> nonInstantiable;

	Extractor(ASTContext& c) : C(c), SM(c.getSourceManager()), PP(c.getLangOpts())
	{
		PP.SuppressTagKeyword = true;
		PP.Bool = true;
		PP.SuppressUnwrittenScope = false;
		PP.FullyQualifiedName = true;
	}

	int id(const Decl* d)
	{
		if (!d) return -1;
		d = d->getCanonicalDecl();
		auto it = ids.find(d);
		if (it != ids.end()) return it->second;
		int n = (int)ids.size() + 1;
		ids[d] = n;
		return n;
	}

	std::string fileOf(SourceLocation l)
	{
		if (l.isInvalid()) return "";
		SourceLocation e = SM.getExpansionLoc(l);
		PresumedLoc p = SM.getPresumedLoc(e);
		if (p.isInvalid()) return "";
		return p.getFilename();
	}
	int lineOf(SourceLocation l)
	{
		if (l.isInvalid()) return 0;
		return (int)SM.getExpansionLineNumber(l);
	}
	bool underPrefix(SourceLocation l)
	{
		std::string f = fileOf(l);
		if (f.empty()) return false;
		for (auto& p : gPrefixes)
			if (f.compare(0, p.size(), p) == 0) return true;
		return false;
	}

	// qualified name without any template arguments ("asl::Array::insert")
	std::string patternName(const NamedDecl* d)
	{
		std::vector<std::string> parts;
		parts.push_back(d->getNameAsString());
		const DeclContext* dc = d->getDeclContext();
		while (dc) {
			if (auto* ns = dyn_cast<NamespaceDecl>(dc)) {
				if (!ns->isAnonymousNamespace() && !ns->isInline()) parts.push_back(ns->getNameAsString());
				else if (ns->isAnonymousNamespace()) parts.push_back("(anon)");
			} else if (auto* rd = dyn_cast<RecordDecl>(dc)) {
				std::string n = rd->getNameAsString();
				if (n.empty()) n = "(anon)";
				parts.push_back(n);
			} else if (auto* fd = dyn_cast<FunctionDecl>(dc)) {
				parts.push_back(fd->getNameAsString());
			} else if (auto* ed = dyn_cast<EnumDecl>(dc)) {
				if (ed->isScoped()) parts.push_back(ed->getNameAsString());
			}
			dc = dc->getParent();
		}
		std::string s;
		for (auto it = parts.rbegin(); it != parts.rend(); ++it) {
			if (!s.empty()) s += "::";
			s += *it;
		}
		return s;
	}

	std::string qname(const NamedDecl* d)
	{
		if (auto* sp = dyn_cast<ClassTemplateSpecializationDecl>(d)) return C.getRecordType(sp).getCanonicalType().getAsString(PP);
		std::string s;
		llvm::raw_string_ostream os(s);
		d->printQualifiedName(os, PP);
		os.flush();
		if (auto* fd = dyn_cast<FunctionDecl>(d)) {
			if (auto* ta = fd->getTemplateSpecializationArgs()) {
				s += "<";
				bool first = true;
				for (auto& a : ta->asArray()) {
					if (!first) s += ",";
					first = false;
					std::string as;
					llvm::raw_string_ostream aos(as);
					a.print(PP, aos, true);
					aos.flush();
					s += as;
				}
				s += ">";
			}
		}
		return s;
	}

	bool sizeable(QualType u)
	{
		if (u.isNull() || u->isDependentType() || u->isIncompleteType() || u->isFunctionType() || u->isVoidType()) return false;
		if (u->isUndeducedType() || u->isPlaceholderType() || u->containsErrors()) return false;
		if (u->isArrayType()) {
			if (!C.getAsConstantArrayType(u)) return false;
			return sizeable(C.getBaseElementType(u));
		}
		if (auto* rd = u->getAsCXXRecordDecl()) {
			if (!rd->hasDefinition() || rd->isInvalidDecl()) return false;
			for (auto* f : rd->fields())
				if (f->isInvalidDecl() || (!f->getType()->isReferenceType() && !sizeable(f->getType().getCanonicalType().getUnqualifiedType()))) return false;
		} else if (u->isRecordType()) {
			if (auto* rt = u->getAs<RecordType>())
				if (rt->getDecl()->isInvalidDecl() || !rt->getDecl()->isCompleteDefinition()) return false;
		}
		return true;
	}

	int typeId(QualType t)
	{
		if (t.isNull()) return 0;
		QualType ct = t.getCanonicalType();
		std::string s = ct.getAsString(PP);
		auto it = typeIds.find(s);
		if (it != typeIds.end()) return it->second;
		int n = (int)typeIds.size() + 1;
		typeIds[s] = n;
		json::Object o;
		o["id"] = n;
		o["s"] = s;
		QualType base = ct;
		if (ct->isReferenceType()) {
			o["ref"] = true;
			base = ct->getPointeeType();
			o["to"] = typeId(base);
		}
		if (base.isConstQualified()) o["const"] = true;
		if (!ct->isReferenceType()) {
			if (ct->isPointerType()) {
				o["ptr"] = true;
				o["to"] = typeId(ct->getPointeeType());
			} else if (ct->isArrayType()) {
				o["arr"] = true;
				if (auto* at = C.getAsConstantArrayType(ct)) o["n"] = (int64_t)at->getSize().getZExtValue();
				o["to"] = typeId(C.getAsArrayType(ct)->getElementType());
			}
		}
		QualType u = base.getUnqualifiedType();
		if (!ct->isReferenceType()) {
			if (u->isIntegralOrEnumerationType() && !u->isDependentType()) {
				o["int"] = true;
				o["bits"] = (int64_t)C.getIntWidth(u);
				o["sg"] = u->isSignedIntegerOrEnumerationType();
				if (u->isBooleanType()) o["bool"] = true;
				if (u->isEnumeralType())
					if (auto* ed = u->getAs<EnumType>()) o["enum"] = qname(ed->getDecl());
			} else if (u->isFloatingType()) {
				o["flt"] = true;
			}
			if (sizeable(u)) o["sz"] = (int64_t)C.getTypeSizeInChars(u).getQuantity();
		}
		if (auto* rd = base->getAsCXXRecordDecl()) {
			o["rec"] = qname(rd);
			o["recp"] = patternName(rd);
		}
		types.push_back(std::move(o));
		return n;
	}

	// ---------------------------------------------------------------- expressions
	json::Value E(const Expr* e)
	{
		if (!e) return nullptr;
		json::Object o;
		int line = lineOf(e->getBeginLoc());
		auto fin = [&](json::Object& ob) -> json::Value {
			ob["l"] = line;
			if (!ob.get("t")) ob["t"] = typeId(e->getType());
			return json::Value(std::move(ob));
		};
		// constant evaluation for non-literal integral expressions
		auto addCv = [&](json::Object& ob) {
			if (e->isValueDependent() || e->isTypeDependent()) return;
			if (!e->getType()->isIntegralOrEnumerationType()) return;
			if (!e->isPRValue()) return;
			Expr::EvalResult r;
			if (e->EvaluateAsInt(r, C, Expr::SE_NoSideEffects) && r.Val.isInt()) ob["cv"] = r.Val.getInt().getExtValue();
		};

		if (auto* p = dyn_cast<ParenExpr>(e)) return E(p->getSubExpr());
		if (auto* p = dyn_cast<ExprWithCleanups>(e)) return E(p->getSubExpr());
		if (auto* p = dyn_cast<MaterializeTemporaryExpr>(e)) return E(p->getSubExpr());
		if (auto* p = dyn_cast<ConstantExpr>(e)) return E(p->getSubExpr());
		if (auto* p = dyn_cast<SubstNonTypeTemplateParmExpr>(e)) return E(p->getReplacement());
		if (auto* p = dyn_cast<CXXDefaultArgExpr>(e)) return E(p->getExpr());
		if (auto* p = dyn_cast<CXXDefaultInitExpr>(e)) return E(p->getExpr());
		if (auto* p = dyn_cast<CXXStdInitializerListExpr>(e)) return E(p->getSubExpr());
		if (auto* p = dyn_cast<CXXBindTemporaryExpr>(e)) {
			const CXXDestructorDecl* d = p->getTemporary()->getDestructor();
			if (!d || d->isTrivial()) return E(p->getSubExpr());
			o["k"] = "temp";
			o["dtor"] = qname(d);
			o["dtorp"] = patternName(d);
			o["e"] = E(p->getSubExpr());
			return fin(o);
		}
		if (auto* il = dyn_cast<IntegerLiteral>(e)) {
			o["k"] = "int";
			o["v"] = il->getValue().getBitWidth() <= 64 ? (e->getType()->isSignedIntegerType() ? il->getValue().getSExtValue() : (int64_t)il->getValue().getZExtValue()) : 0;
			return fin(o);
		}
		if (auto* cl = dyn_cast<CharacterLiteral>(e)) {
			o["k"] = "int";
			int64_t v = cl->getValue();
			if (cl->getKind() == CharacterLiteral::Ascii && v > 127) v -= 256; // char is signed on the build target
			o["v"] = v;
			o["chr"] = true;
			return fin(o);
		}
		if (auto* bl = dyn_cast<CXXBoolLiteralExpr>(e)) {
			o["k"] = "int";
			o["v"] = bl->getValue() ? 1 : 0;
			o["boollit"] = true;
			return fin(o);
		}
		if (isa<CXXNullPtrLiteralExpr>(e) || isa<GNUNullExpr>(e)) {
			o["k"] = "int";
			o["v"] = 0;
			o["null"] = true;
			return fin(o);
		}
		if (auto* fl = dyn_cast<FloatingLiteral>(e)) {
			o["k"] = "float";
			o["v"] = fl->getValueAsApproximateDouble();
			return fin(o);
		}
		if (auto* sl = dyn_cast<StringLiteral>(e)) {
			o["k"] = "str";
			json::Array b;
			if (sl->getCharByteWidth() == 1) {
				for (unsigned char ch : sl->getBytes()) b.push_back((int64_t)ch);
			} else {
				for (unsigned i = 0; i < sl->getLength(); i++) b.push_back((int64_t)sl->getCodeUnit(i));
				o["cw"] = (int64_t)sl->getCharByteWidth();
			}
			o["b"] = std::move(b);
			return fin(o);
		}
		if (auto* pe = dyn_cast<PredefinedExpr>(e)) {
			o["k"] = "str";
			o["b"] = json::Array();
			return fin(o);
		}
		if (auto* dr = dyn_cast<DeclRefExpr>(e)) {
			const ValueDecl* d = dr->getDecl();
			if (auto* ec = dyn_cast<EnumConstantDecl>(d)) {
				o["k"] = "int";
				o["v"] = ec->getInitVal().getExtValue();
				o["enumc"] = qname(ec);
				o["en"] = ec->getNameAsString();
				return fin(o);
			}
			if (auto* fd = dyn_cast<FunctionDecl>(d)) {
				o["k"] = "fn";
				o["q"] = qname(fd);
				o["pq"] = patternName(fd);
				return fin(o);
			}
			if (auto* vd = dyn_cast<VarDecl>(d)) {
				o["k"] = "var";
				o["id"] = id(vd);
				o["n"] = vd->getNameAsString();
				const char* vk = "local";
				if (isa<ParmVarDecl>(vd)) vk = "param";
				else if (vd->isStaticLocal()) vk = "slocal";
				else if (vd->hasGlobalStorage()) vk = "global";
				o["vk"] = vk;
				if (vd->hasGlobalStorage()) o["q"] = qname(vd);
				o["dt"] = typeId(vd->getType());
				addCv(o);
				return fin(o);
			}
			if (auto* fld = dyn_cast<FieldDecl>(d)) {
				o["k"] = "mem";
				o["f"] = fld->getNameAsString();
				return fin(o);
			}
			if (auto* bd = dyn_cast<BindingDecl>(d)) {
				o["k"] = "var";
				o["id"] = id(bd);
				o["n"] = bd->getNameAsString();
				o["vk"] = "local";
				return fin(o);
			}
			if (auto* nt = dyn_cast<NonTypeTemplateParmDecl>(d)) {
				o["k"] = "var";
				o["id"] = id(nt);
				o["n"] = nt->getNameAsString();
				o["vk"] = "tparam";
				return fin(o);
			}
			o["k"] = "other";
			o["cls"] = "DeclRefExpr";
			return fin(o);
		}
		if (auto* me = dyn_cast<MemberExpr>(e)) {
			const ValueDecl* d = me->getMemberDecl();
			if (auto* ec = dyn_cast<EnumConstantDecl>(d)) {
				o["k"] = "int";
				o["v"] = ec->getInitVal().getExtValue();
				o["enumc"] = qname(ec);
				o["en"] = ec->getNameAsString();
				return fin(o);
			}
			if (auto* vd = dyn_cast<VarDecl>(d)) { // static member
				o["k"] = "var";
				o["id"] = id(vd);
				o["n"] = vd->getNameAsString();
				o["vk"] = "global";
				o["q"] = qname(vd);
				o["dt"] = typeId(vd->getType());
				addCv(o);
				return fin(o);
			}
			o["k"] = "mem";
			o["f"] = d->getNameAsString();
			if (auto* fld = dyn_cast<FieldDecl>(d)) {
				o["fq"] = patternName(fld);
				o["fid"] = id(fld);
				o["dt"] = typeId(fld->getType());
			} else if (auto* md = dyn_cast<CXXMethodDecl>(d)) {
				o["method"] = qname(md);
			}
			o["arrow"] = me->isArrow();
			if (me->isImplicitAccess()) o["impl"] = true;
			o["b"] = E(me->getBase());
			return fin(o);
		}
		if (isa<CXXThisExpr>(e)) {
			o["k"] = "this";
			return fin(o);
		}
		if (auto* ce = dyn_cast<CastExpr>(e)) {
			CastKind ck = ce->getCastKind();
			bool expl = isa<ExplicitCastExpr>(e);
			if (!expl) {
				switch (ck) {
				case CK_NoOp:
				case CK_ArrayToPointerDecay:
				case CK_FunctionToPointerDecay:
				case CK_ConstructorConversion:
				case CK_UserDefinedConversion:
				case CK_DerivedToBase:
				case CK_UncheckedDerivedToBase:
				case CK_BuiltinFnToFnPtr:
					return E(ce->getSubExpr());
				default: break;
				}
			} else if (ck == CK_ConstructorConversion || ck == CK_UserDefinedConversion) {
				return E(ce->getSubExpr());
			}
			o["k"] = "cast";
			o["ck"] = CastExpr::getCastKindName(ck);
			if (expl) o["expl"] = true;
			o["e"] = E(ce->getSubExpr());
			addCv(o);
			return fin(o);
		}
		if (auto* oc = dyn_cast<CXXOperatorCallExpr>(e)) {
			const FunctionDecl* fd = oc->getDirectCallee();
			o["k"] = "call";
			o["ck"] = "op";
			o["op"] = getOperatorSpelling(oc->getOperator());
			callee(o, fd);
			json::Array args;
			bool isMethod = fd && isa<CXXMethodDecl>(fd) && !cast<CXXMethodDecl>(fd)->isStatic();
			unsigned start = 0;
			if (isMethod && oc->getNumArgs() > 0) {
				o["obj"] = E(oc->getArg(0));
				start = 1;
			}
			for (unsigned i = start; i < oc->getNumArgs(); i++) args.push_back(E(oc->getArg(i)));
			o["a"] = std::move(args);
			if (!fd) o["ce"] = E(oc->getCallee());
			return fin(o);
		}
		if (auto* mc = dyn_cast<CXXMemberCallExpr>(e)) {
			const CXXMethodDecl* md = mc->getMethodDecl();
			o["k"] = "call";
			o["ck"] = "method";
			callee(o, md);
			o["obj"] = E(mc->getImplicitObjectArgument());
			if (auto* me = dyn_cast<MemberExpr>(mc->getCallee()->IgnoreParens())) {
				if (me->isArrow()) o["arrow"] = true;
				if (me->isImplicitAccess()) o["impl"] = true;
			}
			json::Array args;
			for (unsigned i = 0; i < mc->getNumArgs(); i++) args.push_back(E(mc->getArg(i)));
			o["a"] = std::move(args);
			if (!md) o["ce"] = E(mc->getCallee());
			return fin(o);
		}
		if (auto* ce = dyn_cast<CallExpr>(e)) {
			const FunctionDecl* fd = ce->getDirectCallee();
			o["k"] = "call";
			o["ck"] = "func";
			callee(o, fd);
			if (!fd) o["ce"] = E(ce->getCallee());
			json::Array args;
			for (unsigned i = 0; i < ce->getNumArgs(); i++) args.push_back(E(ce->getArg(i)));
			o["a"] = std::move(args);
			addCv(o);
			return fin(o);
		}
		if (auto* cc = dyn_cast<CXXConstructExpr>(e)) {
			const CXXConstructorDecl* cd = cc->getConstructor();
			// elidable copy of a temporary: look through
			if (cc->isElidable() && cc->getNumArgs() == 1) return E(cc->getArg(0));
			o["k"] = "construct";
			callee(o, cd);
			if (cd->isCopyConstructor()) o["copy"] = true;
			if (cd->isTrivial()) o["trivial"] = true;
			if (isa<CXXTemporaryObjectExpr>(e)) o["temp"] = true;
			json::Array args;
			for (unsigned i = 0; i < cc->getNumArgs(); i++) args.push_back(E(cc->getArg(i)));
			o["a"] = std::move(args);
			return fin(o);
		}
		if (auto* ne = dyn_cast<CXXNewExpr>(e)) {
			o["k"] = "new";
			o["at"] = typeId(ne->getAllocatedType());
			if (ne->isArray()) {
				o["array"] = true;
				if (auto sz = ne->getArraySize())
					if (*sz) o["n"] = E(*sz);
			}
			if (ne->getInitializer()) o["init"] = E(ne->getInitializer());
			json::Array pl;
			for (unsigned i = 0; i < ne->getNumPlacementArgs(); i++) pl.push_back(E(ne->getPlacementArg(i)));
			if (!pl.empty()) o["placement"] = std::move(pl);
			return fin(o);
		}
		if (auto* de = dyn_cast<CXXDeleteExpr>(e)) {
			o["k"] = "delete";
			if (de->isArrayForm()) o["array"] = true;
			o["e"] = E(de->getArgument());
			QualType dt = de->getDestroyedType();
			if (!dt.isNull()) {
				o["dt"] = typeId(dt);
				if (auto* rd = dt->getAsCXXRecordDecl())
					if (rd->hasDefinition())
						if (auto* dd = rd->getDestructor()) {
							o["dtor"] = qname(dd);
							o["dtorp"] = patternName(dd);
						}
			}
			return fin(o);
		}
		if (auto* pd = dyn_cast<CXXPseudoDestructorExpr>(e)) {
			o["k"] = "pseudodtor";
			o["b"] = E(pd->getBase());
			return fin(o);
		}
		if (auto* uo = dyn_cast<UnaryOperator>(e)) {
			o["k"] = "un";
			std::string op = UnaryOperator::getOpcodeStr(uo->getOpcode()).str();
			if (uo->isPostfix()) op = "post" + op;
			else if (uo->isIncrementDecrementOp()) op = "pre" + op;
			o["op"] = op;
			o["e"] = E(uo->getSubExpr());
			addCv(o);
			return fin(o);
		}
		if (auto* bo = dyn_cast<BinaryOperator>(e)) {
			o["k"] = "bin";
			o["op"] = bo->getOpcodeStr().str();
			o["x"] = E(bo->getLHS());
			o["y"] = E(bo->getRHS());
			if (auto* ca = dyn_cast<CompoundAssignOperator>(e)) o["ct"] = typeId(ca->getComputationResultType());
			addCv(o);
			return fin(o);
		}
		if (auto* co = dyn_cast<ConditionalOperator>(e)) {
			o["k"] = "cond";
			o["c"] = E(co->getCond());
			o["x"] = E(co->getTrueExpr());
			o["y"] = E(co->getFalseExpr());
			addCv(o);
			return fin(o);
		}
		if (auto* as = dyn_cast<ArraySubscriptExpr>(e)) {
			o["k"] = "idx";
			o["b"] = E(as->getBase());
			o["i"] = E(as->getIdx());
			return fin(o);
		}
		if (auto* ue = dyn_cast<UnaryExprOrTypeTraitExpr>(e)) {
			o["k"] = "int";
			Expr::EvalResult r;
			if (!e->isValueDependent() && e->EvaluateAsInt(r, C)) o["v"] = r.Val.getInt().getExtValue();
			else o["v"] = 0;
			if (ue->getKind() == UETT_SizeOf) {
				o["sizeof"] = typeId(ue->getTypeOfArgument());
				if (!ue->isArgumentType()) o["sizeofe"] = E(ue->getArgumentExpr());
			}
			return fin(o);
		}
		if (auto* il = dyn_cast<InitListExpr>(e)) {
			if (il->isSemanticForm() == false && il->getSemanticForm()) il = il->getSemanticForm();
			o["k"] = "initlist";
			json::Array items;
			for (unsigned i = 0; i < il->getNumInits(); i++) items.push_back(E(il->getInit(i)));
			o["items"] = std::move(items);
			if (il->hasArrayFiller()) o["filler"] = true;
			return fin(o);
		}
		if (isa<ImplicitValueInitExpr>(e) || isa<CXXScalarValueInitExpr>(e)) {
			o["k"] = "int";
			o["v"] = 0;
			o["valueinit"] = true;
			return fin(o);
		}
		if (auto* le = dyn_cast<LambdaExpr>(e)) {
			o["k"] = "lambda";
			if (auto* op = le->getCallOperator()) {
				o["q"] = qname(op);
				o["fid"] = id(op);
				emitFunction(op);
			}
			json::Array caps;
			for (auto it = le->capture_init_begin(); it != le->capture_init_end(); ++it) caps.push_back(E(*it));
			o["caps"] = std::move(caps);
			return fin(o);
		}
		if (auto* te = dyn_cast<CXXThrowExpr>(e)) {
			o["k"] = "throw";
			if (te->getSubExpr()) o["e"] = E(te->getSubExpr());
			return fin(o);
		}
		if (auto* se = dyn_cast<StmtExpr>(e)) {
			o["k"] = "stmtexpr";
			o["body"] = S(se->getSubStmt());
			return fin(o);
		}
		if (auto* ov = dyn_cast<OpaqueValueExpr>(e)) {
			if (ov->getSourceExpr()) return E(ov->getSourceExpr());
		}
		if (auto* bc = dyn_cast<BinaryConditionalOperator>(e)) {
			o["k"] = "cond";
			o["c"] = E(bc->getCommon());
			o["x"] = E(bc->getCommon());
			o["y"] = E(bc->getFalseExpr());
			return fin(o);
		}
		// anything else: keep the class name and the children so that nothing is silently dropped
		o["k"] = "other";
		o["cls"] = e->getStmtClassName();
		json::Array ch;
		for (const Stmt* c : e->children())
			if (c) {
				if (auto* ce2 = dyn_cast<Expr>(c)) ch.push_back(E(ce2));
				else ch.push_back(S(c));
			}
		o["ch"] = std::move(ch);
		addCv(o);
		return fin(o);
	}

	void callee(json::Object& o, const FunctionDecl* fd)
	{
		if (!fd) return;
		o["fn"] = qname(fd);
		o["pq"] = patternName(fd);
		o["fid"] = id(fd);
		o["sig"] = sig(fd);
		if (auto* md = dyn_cast<CXXMethodDecl>(fd)) {
			if (md->isVirtual()) o["virt"] = true;
			if (md->isStatic()) o["static"] = true;
			o["cls"] = qname(md->getParent());
			o["clsp"] = patternName(md->getParent());
		}
		if (fd->getBuiltinID()) o["builtin"] = true;
	}

	std::string sig(const FunctionDecl* fd)
	{
		std::string s = "(";
		for (unsigned i = 0; i < fd->getNumParams(); i++) {
			if (i) s += ",";
			s += fd->getParamDecl(i)->getType().getCanonicalType().getAsString(PP);
		}
		if (fd->isVariadic()) s += ",...";
		s += ")";
		if (auto* md = dyn_cast<CXXMethodDecl>(fd))
			if (md->isConst()) s += "const";
		return s;
	}

	// ---------------------------------------------------------------- statements
	json::Value varDecl(const VarDecl* vd)
	{
		json::Object v;
		v["id"] = id(vd);
		v["n"] = vd->getNameAsString();
		v["t"] = typeId(vd->getType());
		v["l"] = lineOf(vd->getLocation());
		if (vd->isStaticLocal()) v["static"] = true;
		if (vd->hasInit()) v["init"] = E(vd->getInit());
		QualType t = vd->getType();
		if (!t->isReferenceType() && !t->isDependentType()) {
			QualType bt = C.getBaseElementType(t);
			if (auto* rd = bt->getAsCXXRecordDecl())
				if (rd->hasDefinition() && !rd->hasTrivialDestructor())
					if (auto* dd = rd->getDestructor()) {
						v["dtor"] = qname(dd);
						v["dtorp"] = patternName(dd);
					}
		}
		return json::Value(std::move(v));
	}

	json::Value S(const Stmt* s)
	{
		if (!s) return nullptr;
		if (auto* e = dyn_cast<Expr>(s)) {
			json::Object o;
			o["k"] = "expr";
			o["l"] = lineOf(s->getBeginLoc());
			o["e"] = E(e);
			return json::Value(std::move(o));
		}
		json::Object o;
		o["l"] = lineOf(s->getBeginLoc());
		if (auto* cs = dyn_cast<CompoundStmt>(s)) {
			o["k"] = "block";
			json::Array a;
			for (auto* c : cs->body()) a.push_back(S(c));
			o["s"] = std::move(a);
			o["el"] = lineOf(cs->getRBracLoc());
		} else if (auto* ds = dyn_cast<DeclStmt>(s)) {
			o["k"] = "decl";
			json::Array a;
			for (auto* d : ds->decls())
				if (auto* vd = dyn_cast<VarDecl>(d)) a.push_back(varDecl(vd));
			o["vars"] = std::move(a);
		} else if (auto* is = dyn_cast<IfStmt>(s)) {
			o["k"] = "if";
			if (is->getInit()) o["init"] = S(is->getInit());
			if (is->getConditionVariable()) o["cv"] = varDecl(is->getConditionVariable());
			o["c"] = E(is->getCond());
			o["then"] = S(is->getThen());
			if (is->getElse()) o["else"] = S(is->getElse());
		} else if (auto* ws = dyn_cast<WhileStmt>(s)) {
			o["k"] = "while";
			if (ws->getConditionVariable()) o["cv"] = varDecl(ws->getConditionVariable());
			o["c"] = E(ws->getCond());
			o["body"] = S(ws->getBody());
		} else if (auto* dos = dyn_cast<DoStmt>(s)) {
			o["k"] = "do";
			o["body"] = S(dos->getBody());
			o["c"] = E(dos->getCond());
		} else if (auto* fs = dyn_cast<ForStmt>(s)) {
			o["k"] = "for";
			if (fs->getInit()) o["init"] = S(fs->getInit());
			if (fs->getConditionVariable()) o["cv"] = varDecl(fs->getConditionVariable());
			if (fs->getCond()) o["c"] = E(fs->getCond());
			if (fs->getInc()) o["inc"] = E(fs->getInc());
			o["body"] = S(fs->getBody());
		} else if (auto* fr = dyn_cast<CXXForRangeStmt>(s)) {
			// lowered form: range/begin/end decls, cond, inc, loop variable, body
			o["k"] = "for";
			json::Object init;
			init["k"] = "block";
			init["l"] = lineOf(s->getBeginLoc());
			json::Array ia;
			if (fr->getInit()) ia.push_back(S(fr->getInit()));
			if (fr->getRangeStmt()) ia.push_back(S(fr->getRangeStmt()));
			if (fr->getBeginStmt()) ia.push_back(S(fr->getBeginStmt()));
			if (fr->getEndStmt()) ia.push_back(S(fr->getEndStmt()));
			init["s"] = std::move(ia);
			init["flat"] = true;
			o["init"] = json::Value(std::move(init));
			if (fr->getCond()) o["c"] = E(fr->getCond());
			if (fr->getInc()) o["inc"] = E(fr->getInc());
			json::Object body;
			body["k"] = "block";
			body["l"] = lineOf(s->getBeginLoc());
			json::Array ba;
			if (fr->getLoopVarStmt()) ba.push_back(S(fr->getLoopVarStmt()));
			ba.push_back(S(fr->getBody()));
			body["s"] = std::move(ba);
			o["body"] = json::Value(std::move(body));
			o["range"] = true;
		} else if (auto* ss = dyn_cast<SwitchStmt>(s)) {
			o["k"] = "switch";
			if (ss->getInit()) o["init"] = S(ss->getInit());
			if (ss->getConditionVariable()) o["cv"] = varDecl(ss->getConditionVariable());
			o["c"] = E(ss->getCond());
			o["body"] = S(ss->getBody());
		} else if (auto* cs2 = dyn_cast<CaseStmt>(s)) {
			o["k"] = "case";
			Expr::EvalResult r;
			if (cs2->getLHS() && !cs2->getLHS()->isValueDependent() && cs2->getLHS()->EvaluateAsInt(r, C)) o["v"] = r.Val.getInt().getExtValue();
			o["ve"] = E(cs2->getLHS());
			if (cs2->getRHS()) {
				Expr::EvalResult r2;
				if (!cs2->getRHS()->isValueDependent() && cs2->getRHS()->EvaluateAsInt(r2, C)) o["v2"] = r2.Val.getInt().getExtValue();
			}
			o["sub"] = S(cs2->getSubStmt());
		} else if (auto* dfs = dyn_cast<DefaultStmt>(s)) {
			o["k"] = "default";
			o["sub"] = S(dfs->getSubStmt());
		} else if (isa<BreakStmt>(s)) {
			o["k"] = "break";
		} else if (isa<ContinueStmt>(s)) {
			o["k"] = "continue";
		} else if (auto* rs = dyn_cast<ReturnStmt>(s)) {
			o["k"] = "return";
			if (rs->getRetValue()) o["e"] = E(rs->getRetValue());
		} else if (auto* gs = dyn_cast<GotoStmt>(s)) {
			o["k"] = "goto";
			o["label"] = gs->getLabel()->getNameAsString();
		} else if (auto* ls = dyn_cast<LabelStmt>(s)) {
			o["k"] = "label";
			o["n"] = ls->getDecl()->getNameAsString();
			o["sub"] = S(ls->getSubStmt());
		} else if (isa<NullStmt>(s)) {
			o["k"] = "null";
		} else if (auto* ts = dyn_cast<CXXTryStmt>(s)) {
			o["k"] = "try";
			o["body"] = S(ts->getTryBlock());
			json::Array hs;
			for (unsigned i = 0; i < ts->getNumHandlers(); i++) hs.push_back(S(ts->getHandler(i)->getHandlerBlock()));
			o["handlers"] = std::move(hs);
		} else if (auto* as = dyn_cast<AttributedStmt>(s)) {
			return S(as->getSubStmt());
		} else {
			o["k"] = "otherstmt";
			o["cls"] = s->getStmtClassName();
			json::Array ch;
			for (const Stmt* c : s->children())
				if (c) ch.push_back(S(c));
			o["ch"] = std::move(ch);
		}
		return json::Value(std::move(o));
	}

	// ---------------------------------------------------------------- declarations
	void emitFunction(const FunctionDecl* fd)
	{
		if (!fd->doesThisDeclarationHaveABody()) return;
		if (fd->isDependentContext()) return;
		if (!seenFn.insert(fd).second) return;
		SourceLocation loc = fd->getLocation();
		if (!underPrefix(loc)) return;
		json::Object o;
		o["id"] = id(fd);
		o["q"] = qname(fd);
		o["pq"] = patternName(fd);
		o["sig"] = sig(fd);
		o["n"] = fd->getNameAsString();
		o["file"] = fileOf(loc);
		o["line"] = lineOf(fd->getBeginLoc());
		o["end"] = lineOf(fd->getEndLoc());
		o["ret"] = typeId(fd->getReturnType());
		if (fd->isImplicit()) o["implicit"] = true;
		if (fd->isInvalidDecl()) o["invalid"] = true;
		if (fd->isTemplateInstantiation()) o["inst"] = true;
		const char* kind = "function";
		if (auto* md = dyn_cast<CXXMethodDecl>(fd)) {
			kind = "method";
			if (isa<CXXConstructorDecl>(md)) kind = "ctor";
			else if (isa<CXXDestructorDecl>(md)) kind = "dtor";
			else if (isa<CXXConversionDecl>(md)) kind = "conv";
			o["cls"] = qname(md->getParent());
			o["clsp"] = patternName(md->getParent());
			if (md->isVirtual()) o["virt"] = true;
			if (md->isStatic()) o["static"] = true;
			if (md->isConst()) o["const"] = true;
			if (md->isCopyAssignmentOperator()) o["copyassign"] = true;
			if (auto* cd = dyn_cast<CXXConstructorDecl>(md)) {
				if (cd->isCopyConstructor()) o["copyctor"] = true;
				if (cd->isDefaultConstructor()) o["defctor"] = true;
				json::Array inits;
				for (auto* ci : cd->inits()) {
					json::Object io;
					if (ci->isAnyMemberInitializer()) {
						io["field"] = ci->getAnyMember()->getNameAsString();
						io["ft"] = typeId(ci->getAnyMember()->getType());
					} else if (ci->isBaseInitializer()) {
						io["base"] = QualType(ci->getBaseClass(), 0).getCanonicalType().getAsString(PP);
					} else if (ci->isDelegatingInitializer()) {
						io["delegating"] = true;
					}
					if (ci->isWritten()) io["written"] = true;
					io["e"] = E(ci->getInit());
					io["l"] = lineOf(ci->getSourceLocation());
					inits.push_back(std::move(io));
				}
				o["inits"] = std::move(inits);
			}
			if (md->size_overridden_methods()) {
				json::Array ov;
				for (auto* om : md->overridden_methods()) ov.push_back(qname(om));
				o["overrides"] = std::move(ov);
			}
		}
		if (fd->isOverloadedOperator()) o["oper"] = getOperatorSpelling(fd->getOverloadedOperator());
		if (fd->getAccess() == AS_private) o["acc"] = "private";
		else if (fd->getAccess() == AS_protected) o["acc"] = "protected";
		o["kind"] = kind;
		json::Array ps;
		for (auto* p : fd->parameters()) {
			json::Object po;
			po["id"] = id(p);
			po["n"] = p->getNameAsString();
			po["t"] = typeId(p->getType());
			ps.push_back(std::move(po));
		}
		o["params"] = std::move(ps);
		o["body"] = S(fd->getBody());
		functions.push_back(std::move(o));
	}

	void emitRecord(const CXXRecordDecl* rd)
	{
		if (!rd->isThisDeclarationADefinition()) return;
		if (rd->isDependentContext()) return;
		if (!underPrefix(rd->getLocation())) return;
		if (!seenRec.insert(rd).second) return;
		json::Object o;
		o["q"] = qname(rd);
		o["pq"] = patternName(rd);
		o["file"] = fileOf(rd->getLocation());
		o["line"] = lineOf(rd->getLocation());
		o["tid"] = typeId(C.getRecordType(rd));
		if (rd->isUnion()) o["union"] = true;
		json::Array fs;
		for (auto* f : rd->fields()) {
			json::Object fo;
			fo["n"] = f->getNameAsString();
			fo["t"] = typeId(f->getType());
			fo["id"] = id(f);
			fs.push_back(std::move(fo));
		}
		o["fields"] = std::move(fs);
		json::Array bs;
		for (auto& b : rd->bases())
			if (auto* brd = b.getType()->getAsCXXRecordDecl()) bs.push_back(qname(brd));
		o["bases"] = std::move(bs);
		json::Array ms;
		for (auto* d : rd->decls()) {
			const CXXMethodDecl* m = dyn_cast<CXXMethodDecl>(d);
			if (!m) continue;
			json::Object mo;
			mo["n"] = m->getNameAsString();
			mo["q"] = qname(m);
			mo["sig"] = sig(m);
			mo["id"] = id(m);
			if (m->isImplicit()) mo["implicit"] = true;
			if (m->isDefined()) mo["defined"] = true;
			if (m->isVirtual()) mo["virt"] = true;
			if (m->isPure()) mo["pure"] = true;
			if (m->isDeleted()) mo["deleted"] = true;
			if (m->isInvalidDecl()) mo["invalid"] = true;
			if (isa<CXXConstructorDecl>(m)) mo["kind"] = "ctor";
			else if (isa<CXXDestructorDecl>(m)) mo["kind"] = "dtor";
			else if (isa<CXXConversionDecl>(m)) mo["kind"] = "conv";
			else mo["kind"] = "method";
			ms.push_back(std::move(mo));
		}
		o["methods"] = std::move(ms);
		records.push_back(std::move(o));
	}

	void emitEnum(const EnumDecl* ed)
	{
		if (!ed->isThisDeclarationADefinition()) return;
		if (ed->isDependentContext()) return;
		if (!underPrefix(ed->getLocation())) return;
		if (!seenEnum.insert(ed).second) return;
		json::Object o;
		o["q"] = qname(ed);
		o["pq"] = patternName(ed);
		o["file"] = fileOf(ed->getLocation());
		o["line"] = lineOf(ed->getLocation());
		json::Array cs;
		for (auto* c : ed->enumerators()) {
			json::Object co;
			co["n"] = c->getNameAsString();
			co["v"] = c->getInitVal().getExtValue();
			cs.push_back(std::move(co));
		}
		o["consts"] = std::move(cs);
		enums.push_back(std::move(o));
	}

	void emitGlobal(const VarDecl* vd)
	{
		if (!vd->hasGlobalStorage() || isa<ParmVarDecl>(vd)) return;
		if (vd->getDeclContext()->isDependentContext()) return;
		if (!underPrefix(vd->getLocation())) return;
		const VarDecl* def = vd->getDefinition();
		if (def) vd = def;
		if (!seenVar.insert(vd).second) return;
		json::Object o;
		o["q"] = qname(vd);
		o["id"] = id(vd);
		o["n"] = vd->getNameAsString();
		o["t"] = typeId(vd->getType());
		o["file"] = fileOf(vd->getLocation());
		o["line"] = lineOf(vd->getLocation());
		if (vd->isStaticLocal()) {
			o["slocal"] = true;
			if (auto* fd = dyn_cast<FunctionDecl>(vd->getDeclContext())) o["infn"] = qname(fd);
		}
		if (vd->getType().isConstQualified()) o["const"] = true;
		if (const Expr* init = vd->getAnyInitializer()) {
			// compact form for integer tables
			const Expr* ie = init->IgnoreParenImpCasts();
			if (auto* il = dyn_cast<InitListExpr>(ie)) {
				if (il->getSemanticForm()) il = il->getSemanticForm();
				json::Array vals;
				bool allInt = true;
				for (unsigned i = 0; i < il->getNumInits() && allInt; i++) {
					Expr::EvalResult r;
					const Expr* x = il->getInit(i);
					if (!x->isValueDependent() && x->getType()->isIntegralOrEnumerationType() && x->EvaluateAsInt(r, C)) vals.push_back(r.Val.getInt().getExtValue());
					else allInt = false;
				}
				if (allInt) {
					o["vals"] = std::move(vals);
					if (il->hasArrayFiller()) o["filler"] = true;
				} else
					o["init"] = E(init);
			} else
				o["init"] = E(init);
		}
		globals.push_back(std::move(o));
	}
};

class Visitor : public RecursiveASTVisitor<Visitor>
{
public:
	Extractor& X;
	Visitor(Extractor& x) : X(x) {}
	bool shouldVisitTemplateInstantiations() const { return true; }
	bool shouldVisitImplicitCode() const { return true; }
	bool VisitFunctionDecl(FunctionDecl* fd)
	{
		X.emitFunction(fd);
		return true;
	}
	bool VisitCXXRecordDecl(CXXRecordDecl* rd)
	{
		X.emitRecord(rd);
		return true;
	}
	bool VisitEnumDecl(EnumDecl* ed)
	{
		X.emitEnum(ed);
		return true;
	}
	bool VisitVarDecl(VarDecl* vd)
	{
		X.emitGlobal(vd);
		return true;
	}
};

// collects class template specialisations that have a definition
class SpecCollector : public RecursiveASTVisitor<SpecCollector>
{
public:
	std::vector<CXXRecordDecl*> specs;
	bool shouldVisitTemplateInstantiations() const { return true; }
	bool VisitCXXRecordDecl(CXXRecordDecl* rd)
	{
		if (rd->isThisDeclarationADefinition() && !rd->isDependentContext() && rd->getTemplateInstantiationPattern()) specs.push_back(rd);
		return true;
	}
};

class Consumer : public SemaConsumer
{
	CompilerInstance& CI;
	Sema* sema = nullptr;

public:
	Consumer(CompilerInstance& ci) : CI(ci) {}
	void InitializeSema(Sema& s) override { sema = &s; }
	void ForgetSema() override { sema = nullptr; }

	void HandleTranslationUnit(ASTContext& ctx) override
	{
		gParseErrors += CI.getDiagnostics().getClient()->getNumErrors();
		Extractor X(ctx);
		if (gForceInst && sema) {
			CI.getDiagnostics().setSuppressAllDiagnostics(true);
			// iterate: instantiating members can complete further specialisations
			std::set<const Decl*> done;
			for (int round = 0; round < 4; round++) {
				SpecCollector sc;
				sc.TraverseDecl(ctx.getTranslationUnitDecl());
				bool any = false;
				for (CXXRecordDecl* rd : sc.specs) {
					if (!X.underPrefix(rd->getLocation())) continue;
					for (auto* d : rd->decls()) {
						auto* m = dyn_cast<CXXMethodDecl>(d);
						if (!m) continue;
						if (!done.insert(m).second) continue;
						if (m->isDefined() || m->isDeleted() || m->isImplicit() || m->isInvalidDecl()) continue;
						const FunctionDecl* pat = m->getTemplateInstantiationPattern();
						if (!pat || !pat->hasBody()) continue;
						sema->InstantiateFunctionDefinition(m->getLocation(), m, true, false);
						any = true;
						if (m->isInvalidDecl() || !m->isDefined()) X.nonInstantiable.push_back(X.qname(m) + X.sig(m));
					}
				}
				sema->PerformPendingInstantiations();
				if (!any) break;
			}
		}
		Visitor v(X);
		v.TraverseDecl(ctx.getTranslationUnitDecl());

		json::Object root;
		root["types"] = std::move(X.types);
		root["functions"] = std::move(X.functions);
		root["records"] = std::move(X.records);
		root["enums"] = std::move(X.enums);
		root["globals"] = std::move(X.globals);
		json::Array ni;
		for (auto& s : X.nonInstantiable) ni.push_back(s);
		root["non_instantiable"] = std::move(ni);
		root["parse_errors"] = gParseErrors;
		root["main_file"] = ctx.getSourceManager().getFileEntryForID(ctx.getSourceManager().getMainFileID())->getName().str();
		std::error_code ec;
		llvm::raw_fd_ostream os(gOut, ec);
		if (ec) {
			llvm::errs() << "aslsa: cannot write " << gOut << "\n";
			gParseErrors++;
			return;
		}
		os << json::Value(std::move(root));
		os << "\n";
	}
};

class Action : public ASTFrontendAction
{
public:
	std::unique_ptr<ASTConsumer> CreateASTConsumer(CompilerInstance& ci, llvm::StringRef) override { return std::make_unique<Consumer>(ci); }
};

class Factory : public tooling::FrontendActionFactory
{
public:
	std::unique_ptr<FrontendAction> create() override { return std::make_unique<Action>(); }
};

} // namespace

int main(int argc, const char** argv)
{
	std::vector<std::string> files, flags;
	bool afterDash = false;
	for (int i = 1; i < argc; i++) {
		std::string a = argv[i];
		if (afterDash) flags.push_back(a);
		else if (a == "--") afterDash = true;
		else if (a == "--force-inst") gForceInst = true;
		else if (a == "--prefix" && i + 1 < argc) gPrefixes.push_back(argv[++i]);
		else if (a == "--out" && i + 1 < argc) gOut = argv[++i];
		else files.push_back(a);
	}
	if (files.size() != 1 || gOut.empty() || gPrefixes.empty()) {
		llvm::errs() << "usage: aslsa [--force-inst] --prefix DIR --out out.json file.cpp -- flags\n";
		return 2;
	}
	tooling::FixedCompilationDatabase db(".", flags);
	tooling::ClangTool tool(db, files);
	Factory f;
	int rc = tool.run(&f);
	if (rc != 0 && !gForceInst) return 3;
	return gParseErrors ? 3 : 0;
}
